"""Deterministic line-level thread scheduler for C20.

Worker threads run under sys.settrace; every 'line' event inside the tested package is a
yield point.  Exactly one thread holds the run token at any time (one semaphore per
thread), so an execution is a pure function of (operations, schedule): it can be
enumerated, replayed and shrunk.  A schedule is a list of pre-emptions
[(steps, next_thread), ...]: the running thread is stopped after `steps` yield points and
`next_thread` gets the token; when the list is exhausted, or a thread finishes, the
remaining threads run to completion in index order."""
import sys
import threading


class Deadlock(Exception):
    pass


class Scheduler:
    def __init__(self, funcs, schedule, marker="/fastparquet/", first=0, timeout=60.0):
        self.funcs = funcs
        self.n = len(funcs)
        self.schedule = list(schedule)
        self.marker = marker
        self.sems = [threading.Semaphore(0) for _ in funcs]
        self.done = [False] * self.n
        self.results = [None] * self.n
        self.errors = [None] * self.n
        self.steps = [0] * self.n          # yield points seen per thread
        self.current = first
        self.budget = None                 # steps left before the next pre-emption
        self.next_thread = None
        self.preemptions_done = 0
        self.landed_inside = 0             # pre-emptions that hit while the other op was inside the package... (measured)
        self.timeout = timeout
        self.log = []
        self._advance_plan()

    def _advance_plan(self):
        if self.schedule:
            self.budget, self.next_thread = self.schedule.pop(0)
        else:
            self.budget, self.next_thread = None, None

    # -- called from the traced threads
    def _yield_point(self, tid):
        self.steps[tid] += 1
        if self.budget is None:
            return
        self.budget -= 1
        if self.budget > 0:
            return
        nxt = self.next_thread
        self._advance_plan()
        if nxt is None or nxt == tid or self.done[nxt]:
            return
        self.preemptions_done += 1
        self.log.append((tid, self.steps[tid], nxt))
        self._switch(tid, nxt)

    def _switch(self, tid, nxt):
        self.current = nxt
        self.sems[nxt].release()
        if not self.sems[tid].acquire(timeout=self.timeout):
            raise Deadlock("thread %d never got the token back" % tid)

    def _finish(self, tid):
        self.done[tid] = True
        for j in range(self.n):
            if not self.done[j]:
                self.current = j
                self.sems[j].release()
                return

    def _make_tracer(self, tid):
        marker = self.marker

        def local(frame, event, arg):
            if event == "line":
                self._yield_point(tid)
            return local

        def glob(frame, event, arg):
            if event == "call" and marker in frame.f_code.co_filename:
                return local
            return None
        return glob

    def _body(self, tid):
        if not self.sems[tid].acquire(timeout=self.timeout):
            self.errors[tid] = Deadlock("thread %d never started" % tid)
            return
        sys.settrace(self._make_tracer(tid))
        try:
            self.results[tid] = self.funcs[tid]()
        except BaseException as e:      # noqa - recorded, judged by the caller
            self.errors[tid] = e
        finally:
            sys.settrace(None)
            self._finish(tid)

    def run(self):
        threads = [threading.Thread(target=self._body, args=(i,), daemon=True) for i in range(self.n)]
        for t in threads:
            t.start()
        self.sems[self.current].release()
        for t in threads:
            t.join(self.timeout)
            if t.is_alive():
                raise Deadlock("a worker thread did not finish")
        return self.results, self.errors


def count_steps(func, marker="/fastparquet/"):
    """Number of yield points of an operation executed alone."""
    s = Scheduler([func], [], marker=marker)
    res, err = s.run()
    return s.steps[0], res[0], err[0]


def free_run(funcs, repeat=1, switch_interval=1e-6, timeout=120.0):
    """Free-running stress: all threads start behind a barrier with a tiny switch interval."""
    old = sys.getswitchinterval()
    n = len(funcs)
    results = [None] * n
    errors = [None] * n
    barrier = threading.Barrier(n)

    def body(i):
        try:
            barrier.wait(timeout)
            results[i] = funcs[i]()
        except BaseException as e:   # noqa
            errors[i] = e
    sys.setswitchinterval(switch_interval)
    try:
        threads = [threading.Thread(target=body, args=(i,), daemon=True) for i in range(n)]
        for t in threads:
            t.start()
        for t in threads:
            t.join(timeout)
    finally:
        sys.setswitchinterval(old)
    return results, errors
