"""Independent evaluator of filter programs over model rows, three-valued:

  T  the condition holds on non-missing, comparable operands
  F  it does not
  U  the answer depends on a convention the property leaves open: a missing operand
     under '!=' / 'not in' (pandas says true, SQL says unknown), or operands of
     classes that have no ordinary comparison (text vs number)

AND: F if any F, else U if any U, else T.   OR: T if any T, else U if any U, else F.
C05 demands only that T rows are never lost; C13 demands T rows in, F rows out."""
from vf.cases import MISSING

T, F, U = "T", "F", "U"


def _cls(x):
    if isinstance(x, tuple) and x and x[0] == "ts":
        return "ts"
    if isinstance(x, (bool, int, float)):
        return "num"
    if isinstance(x, str):
        return "str"
    return "other"


def _key(x):
    return x[1] if isinstance(x, tuple) else x


def cond(op, cell, const):
    if op in ("in", "not in"):
        if cell is MISSING:
            return F if op == "in" else U
        res = []
        for c in const:
            if _cls(c) != _cls(cell):
                res.append(None)
            else:
                res.append(_key(c) == _key(cell))
        hit = any(r is True for r in res)
        unk = any(r is None for r in res)
        if op == "in":
            return T if hit else (U if unk else F)
        return F if hit else (U if unk else T)
    if cell is MISSING:
        return U if op == "!=" else F
    if _cls(cell) != _cls(const) or _cls(cell) == "other":
        return U
    a, b = _key(cell), _key(const)
    if isinstance(b, float) and b != b:
        return U
    r = {"==": a == b, "=": a == b, "!=": a != b, "<": a < b, "<=": a <= b, ">": a > b, ">=": a >= b}[op]
    return T if r else F


def conj(vals):
    if any(v == F for v in vals):
        return F
    return U if any(v == U for v in vals) else T


def disj(vals):
    if any(v == T for v in vals):
        return T
    return U if any(v == U for v in vals) else F


def evaluate(groups, row):
    """groups: [[(col, op, model_const)]]; row: {col: model cell}."""
    return disj([conj([cond(op, row[col], val) for col, op, val in g]) for g in groups])
