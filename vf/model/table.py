"""Comparison of a pandas result with the expected logical table of a frame case.

Rules (DESIGN 3.4): names and order exact; row count exact; missing == {None, NaN,
NaT, pd.NA}; ints exact; floats bit-exact except NaN payloads (-0.0 != +0.0); text by
code points; bytes exact; JSON after normalisation; times as (ticks, unit, tz);
categoricals as (labels in order, ordered flag, per-row label, codes)."""
import json

import numpy as np
import pandas as pd

from vf import cases
from vf.cases import MISSING


def _is_missing_scalar(x):
    if x is None or x is pd.NA or x is pd.NaT:
        return True
    try:
        return bool(x != x)
    except Exception:
        return False


def expected_dtype(col):
    """The dtype string the property allows for a column read back."""
    k = col["kind"]
    if k == "bool":
        return {"bool"}
    if k == "int":
        return {col["sub"]}
    if k == "float":
        return {col["sub"]}
    if k in ("text", "bytes", "json"):
        return {"object"}
    if k == "datetime":
        if col.get("tz"):
            tz = cases.tzinfo_of(col["tz"])
            return {str(pd.DatetimeTZDtype(col["unit"], tz))}
        return {"datetime64[%s]" % col["unit"]}
    if k == "timedelta":
        return {"timedelta64[%s]" % col["unit"]}
    if k == "category":
        return {"category"}
    if k == "nullable":
        return {col["sub"]}
    if k == "pyobj":
        # stored as INT64 / BOOLEAN / DOUBLE; nullable or plain depending on what the statistics say about nulls
        return {"int": {"int64", "Int64"}, "bool": {"bool", "boolean"}, "float": {"float64"}}[col["sub"]]
    raise ValueError(k)


def canon_cells(values, col):
    """Canonical list of cells of a result Series / Index / array, interpreted the way
    the expected column kind prescribes.  Returns (cells, problems)."""
    kind = col["kind"]
    problems = []
    arr = values.array if hasattr(values, "array") else values
    n = len(arr)
    out = []
    if kind == "bool":
        a = np.asarray(arr)
        for x in a.tolist():
            out.append(MISSING if _is_missing_scalar(x) else (bool(x) if isinstance(x, (bool, np.bool_)) else x))
        return out, problems
    if kind == "int":
        a = np.asarray(arr)
        if a.dtype.kind in "iu":
            return [int(x) for x in a.tolist()], problems
        return [MISSING if _is_missing_scalar(x) else x for x in a.tolist()], problems
    if kind == "float":
        a = np.asarray(arr)
        if a.dtype.kind != "f":
            return [MISSING if _is_missing_scalar(x) else x for x in a.tolist()], problems
        for x in a:
            f = float(x)
            out.append(MISSING if f != f else f.hex())
        return out, problems
    if kind in ("text", "bytes", "json"):
        for x in list(arr):
            if _is_missing_scalar(x) and not isinstance(x, (str, bytes, list, dict)):
                out.append(MISSING)
            elif kind == "text":
                if type(x) is not str and not isinstance(x, str):
                    problems.append("cell type %s" % type(x).__name__)
                    out.append(("!", repr(x)))
                else:
                    out.append(str(x))
            elif kind == "bytes":
                if not isinstance(x, bytes):
                    problems.append("cell type %s" % type(x).__name__)
                    out.append(("!", repr(x)))
                else:
                    out.append(bytes(x))
            else:
                try:
                    out.append(json.dumps(x, sort_keys=True))
                except (TypeError, ValueError):
                    out.append(("!", repr(x)))
        return out, problems
    if kind in ("datetime", "timedelta"):
        dt = getattr(arr, "dtype", None)
        if dt is None or getattr(dt, "kind", "") not in "Mm":
            return [MISSING if _is_missing_scalar(x) else x for x in list(arr)], problems
        i8 = arr.asi8 if hasattr(arr, "asi8") else np.asarray(arr).view("int64")
        nat = np.iinfo("int64").min
        return [MISSING if int(x) == nat else int(x) for x in i8], problems
    if kind == "category":
        if not isinstance(getattr(arr, "dtype", None), pd.CategoricalDtype):
            lk = col["labels"]
            for x in list(arr):
                out.append(MISSING if _is_missing_scalar(x) else _label(lk, x))
            return out, problems
        cats = [_label(col["labels"], c) for c in arr.categories]
        for c in np.asarray(arr.codes).tolist():
            out.append(MISSING if c < 0 else (cats[c] if c < len(cats) else ("!code", c)))
        return out, problems
    if kind == "pyobj" and col["sub"] == "float":
        for x in np.asarray(arr, dtype=object).tolist():
            if _is_missing_scalar(x):
                out.append(MISSING)
            elif isinstance(x, (float, np.floating)):
                out.append(float(x).hex())
            else:
                out.append(("!", repr(x)))
        return out, problems
    if kind == "pyobj":
        isna = np.asarray(pd.isna(arr))
        vals = np.asarray(arr.to_numpy(dtype=object, na_value=None)) if hasattr(arr, "to_numpy") else np.asarray(arr, dtype=object)
        for m, x in zip(isna.tolist(), vals.tolist()):
            if m:
                out.append(MISSING)
            elif col["sub"] == "bool":
                out.append(bool(x) if isinstance(x, (bool, np.bool_)) else ("!", repr(x)))
            else:
                out.append(int(x) if isinstance(x, (int, np.integer)) and not isinstance(x, (bool, np.bool_)) else ("!", repr(x)))
        return out, problems
    if kind == "nullable":
        isna = np.asarray(pd.isna(arr))
        vals = np.asarray(arr.to_numpy(dtype=object, na_value=None)) if hasattr(arr, "to_numpy") else np.asarray(arr, dtype=object)
        for m, x in zip(isna.tolist(), vals.tolist()):
            if m:
                out.append(MISSING)
            elif col["sub"] == "boolean":
                out.append(bool(x))
            else:
                out.append(int(x))
        return out, problems
    raise ValueError(kind)


def _label(lk, x):
    try:
        if lk == "text":
            return x if isinstance(x, str) else ("!", repr(x))
        if lk == "int":
            return int(x) if not isinstance(x, (bool, np.bool_)) else ("!", repr(x))
        if lk == "bool":
            return bool(x) if isinstance(x, (bool, np.bool_)) else ("!", repr(x))
        f = float(x)
        return MISSING if f != f else f.hex()
    except Exception:
        return ("!", repr(x))


def first_diff(exp, got):
    if len(exp) != len(got):
        return "length %d != %d" % (len(got), len(exp))
    for i, (e, g) in enumerate(zip(exp, got)):
        if e is MISSING or g is MISSING:
            if e is not g:
                return "row %d: expected %r got %r" % (i, e, g)
        elif type(e) is not type(g) or e != g:
            return "row %d: expected %r got %r" % (i, e, g)
    return None


def compare_column(col, n, result, check_dtype=True, rows=None, ns_ok=False):
    """Compare one result column with the expectation.  `rows`: optional list of
    row positions of the original frame the result is supposed to hold.
    `ns_ok`: a datetime column may come back in nanoseconds (INT96 storage is
    nanoseconds by definition); instants are then compared.
    Returns None or (aspect, detail)."""
    exp = cases.expected_column(col, n)
    if rows is not None:
        exp = [exp[i] for i in rows]
    if check_dtype:
        dt = str(result.dtype)
        allowed = set(expected_dtype(col))
        if ns_ok and col["kind"] == "datetime" and col["unit"] != "ns":
            alt = dict(col, unit="ns")
            if dt in expected_dtype(alt):
                f = cases.UNIT_NS[col["unit"]]
                exp = [e if e is MISSING else e * f for e in exp]
            allowed |= expected_dtype(alt)
        if col["kind"] == "pyobj" and all(e is MISSING for e in exp):
            allowed |= {dt}          # nothing to infer the stored type from
        if dt not in allowed:
            return ("dtype", "dtype %s not in %s" % (dt, sorted(allowed)))
    got, problems = canon_cells(result, col)
    if problems:
        return ("celltype", problems[0])
    d = first_diff(exp, got)
    if d:
        aspect = "missing" if ("MISSING" in d) else "value"
        if d.startswith("length"):
            aspect = "length"
        return (aspect, d)
    if col["kind"] == "category" and check_dtype:
        arr = result.array if hasattr(result, "array") else result
        cats = [_label(col["labels"], c) for c in arr.categories]
        ecats = [cases.canon_label(col["labels"], c) for c in col["cats"]]
        if cats != ecats:
            return ("categories", "categories %r != %r" % (cats[:8], ecats[:8]))
        if bool(arr.ordered) != bool(col.get("ordered")):
            return ("ordered", "ordered flag %r != %r" % (arr.ordered, col.get("ordered")))
    return None
