"""Exact, NaN-aware equality of two pandas results (metamorphic / differential checks):
canonical per-cell forms, dtype strings, categorical labels per row, index values.
Independent of pandas.testing so that -0.0/+0.0, bytes/str and container cells are
compared the way the properties need."""
import json

import numpy as np
import pandas as pd

from vf.cases import MISSING


def canon_cell(x):
    if x is None or x is pd.NA or x is pd.NaT:
        return MISSING
    if isinstance(x, (bool, np.bool_)):
        return ("b", bool(x))
    if isinstance(x, (int, np.integer)):
        return ("i", int(x))
    if isinstance(x, (float, np.floating)):
        f = float(x)
        return MISSING if f != f else ("f", f.hex())
    if isinstance(x, str):
        return ("s", x)
    if isinstance(x, (bytes, bytearray, memoryview)):
        return ("y", bytes(x))
    if isinstance(x, (pd.Timestamp, np.datetime64)):
        t = pd.Timestamp(x)
        if t is pd.NaT:
            return MISSING
        # the instant as an unbounded count of nanoseconds (the unit of a *column* is part of its dtype and compared
        # there; the unit of a label inside a categorical or object column is inferred per handle and says nothing)
        unit_ns = {"s": 10 ** 9, "ms": 10 ** 6, "us": 10 ** 3, "ns": 1}[t.unit]
        return ("t", int(t.asm8.view("i8")) * unit_ns, str(t.tz) if t.tz is not None else None)
    if isinstance(x, (pd.Timedelta, np.timedelta64)):
        t = pd.Timedelta(x)
        return MISSING if t is pd.NaT else ("d", int(t.asm8.view("i8")), t.unit)
    if isinstance(x, (list, tuple, dict, np.ndarray)):
        try:
            return ("j", json.dumps(_plain(x), sort_keys=True))
        except (TypeError, ValueError):
            return ("r", repr(x))
    return ("r", repr(x))


def _plain(x):
    if isinstance(x, dict):
        return {str(k): _plain(v) for k, v in x.items()}
    if isinstance(x, (list, tuple, np.ndarray)):
        return [_plain(v) for v in x]
    if isinstance(x, (np.integer,)):
        return int(x)
    if isinstance(x, (np.floating,)):
        return float(x)
    if isinstance(x, (np.bool_,)):
        return bool(x)
    if isinstance(x, bytes):
        return {"__bytes__": x.hex()}
    return x


def canon_array(values):
    """(dtype string, canonical cells) of a Series / Index / array."""
    arr = values.array if hasattr(values, "array") else values
    dt = getattr(arr, "dtype", None)
    if isinstance(dt, pd.CategoricalDtype):
        cats = [canon_cell(c) for c in arr.categories]
        cells = [MISSING if c < 0 else (cats[c] if c < len(cats) else ("badcode", int(c)))
                 for c in np.asarray(arr.codes).tolist()]
        return "category", cells
    kind = getattr(dt, "kind", "O")
    if kind in "Mm" and hasattr(arr, "asi8"):
        nat = np.iinfo("int64").min
        return str(dt), [MISSING if int(v) == nat else ("i", int(v)) for v in arr.asi8]
    if isinstance(dt, pd.api.extensions.ExtensionDtype) and hasattr(arr, "to_numpy"):
        obj = arr.to_numpy(dtype=object, na_value=None)
        return str(dt), [canon_cell(v) for v in obj.tolist()]
    a = np.asarray(arr)
    if a.dtype.kind == "f":
        return str(dt), [MISSING if float(v) != float(v) else ("f", float(v).hex()) for v in a]
    if a.dtype.kind in "iu":
        return str(dt), [("i", int(v)) for v in a.tolist()]
    if a.dtype.kind == "b":
        return str(dt), [("b", bool(v)) for v in a.tolist()]
    return str(dt), [canon_cell(v) for v in list(a)]


def categories_of(values):
    arr = values.array if hasattr(values, "array") else values
    if isinstance(getattr(arr, "dtype", None), pd.CategoricalDtype):
        return [canon_cell(c) for c in arr.categories], bool(arr.ordered)
    return None


def first_cell_diff(a, b):
    if len(a) != len(b):
        return "length %d vs %d" % (len(a), len(b))
    for i, (x, y) in enumerate(zip(a, b)):
        if x is MISSING or y is MISSING:
            if x is not y:
                return "row %d: %r vs %r" % (i, x, y)
        elif x != y:
            return "row %d: %r vs %r" % (i, x, y)
    return None


def is_default_range(idx):
    return isinstance(idx, pd.RangeIndex)


def _loosen(cells):
    """Numbers by value: 1, 1.0 and True are one label (drill directory names "1" and "1.0"
    coerce to equal numbers and share one category; which spelling survives is arbitrary)."""
    out = []
    for c in cells:
        if isinstance(c, tuple) and c and c[0] in ("i", "b"):
            out.append(("f", float(c[1]).hex()))
        else:
            out.append(c)
    return out


def frames_equal(got, exp, check_index=True, check_categories=True, check_dtype=True, loose_numbers=False):
    """None when equal, else (aspect, detail).  RangeIndex labels are positional and
    never compared (both must then be RangeIndex-like or the other side's index is
    compared by value when it is not a RangeIndex)."""
    gc, ec = [str(c) for c in got.columns], [str(c) for c in exp.columns]
    if gc != ec:
        return ("names", "columns %r vs %r" % (gc, ec))
    if len(got) != len(exp):
        return ("rowcount", "rows %d vs %d" % (len(got), len(exp)))
    for pos in range(len(gc)):
        g, e = got.iloc[:, pos], exp.iloc[:, pos]
        gd, gcells = canon_array(g)
        ed, ecells = canon_array(e)
        if check_dtype and gd != ed:
            return ("dtype", "column %r: dtype %s vs %s" % (gc[pos], gd, ed))
        if loose_numbers:
            gcells, ecells = _loosen(gcells), _loosen(ecells)
        d = first_cell_diff(gcells, ecells)
        if d:
            return ("value", "column %r: %s" % (gc[pos], d))
        if check_categories and gd == "category":
            if categories_of(g) != categories_of(e):
                return ("categories", "column %r: categories %r vs %r" % (gc[pos], categories_of(g), categories_of(e)))
    if check_index:
        gi, ei = got.index, exp.index
        if is_default_range(gi) and is_default_range(ei) and gi.name is None and ei.name is None:
            return None
        if (is_default_range(gi) and gi.name is None) != (is_default_range(ei) and ei.name is None):
            return ("index_kind", "index %s(name=%r) vs %s(name=%r)" % (type(gi).__name__, gi.name, type(ei).__name__, ei.name))
        if is_default_range(gi) or is_default_range(ei):
            check_dtype = False   # pandas may turn a named integer column into a RangeIndex: compare values
        if list(gi.names) != list(ei.names):
            return ("index_name", "index names %r vs %r" % (list(gi.names), list(ei.names)))
        if isinstance(gi, pd.MultiIndex) or isinstance(ei, pd.MultiIndex):
            ga = [tuple(canon_cell(v) for v in t) for t in gi.tolist()]
            ea = [tuple(canon_cell(v) for v in t) for t in ei.tolist()]
            if ga != ea:
                return ("index_value", "multi-index values differ")
            return None
        gd, gcells = canon_array(gi)
        ed, ecells = canon_array(ei)
        if check_dtype and gd != ed:
            return ("index_dtype", "index dtype %s vs %s" % (gd, ed))
        d = first_cell_diff(gcells, ecells)
        if d:
            return ("index_value", "index: %s" % d)
    return None


def row_multiset(df, columns=None):
    """Counter of canonical row tuples (for order-insensitive comparisons)."""
    import collections
    cols = list(df.columns) if columns is None else columns
    arrays = [canon_array(df[c])[1] for c in cols]
    return collections.Counter(zip(*arrays)) if arrays else collections.Counter({(): len(df)})
