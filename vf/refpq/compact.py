"""Thrift *compact protocol*, driven by the parsed parquet.thrift IDL.

Wire format summary (thrift/doc/specs/thrift-compact-protocol.md):

* unsigned varint: 7 bits per byte, least significant group first, high bit =
  "more bytes follow".  i16/i32/i64 are zig-zag mapped then varint encoded.
* struct  := field* STOP(0x00)
  field header, short form : one byte ``dddd tttt`` (d = id delta 1..15,
  t = wire type); long form: ``0000 tttt`` followed by the zig-zag varint of the
  field id (i16).
* wire types: 1 BOOL_TRUE, 2 BOOL_FALSE, 3 BYTE, 4 I16, 5 I32, 6 I64,
  7 DOUBLE (8 bytes little endian), 8 BINARY (uvarint length + bytes), 9 LIST,
  10 SET, 11 MAP, 12 STRUCT.
* bool struct fields carry their value in the header's type nibble; bools in
  lists take one byte each (1 = true, 2 = false; 0 is accepted as false with a
  note, because the specification text says 0 while every implementation
  writes 2).
* list header: one byte ``ssss tttt`` (s = size 0..14, t = element type) or
  ``1111 tttt`` followed by the uvarint size.

Public API: ``decode``, ``encode``, ``tokenize``, ``read_uvarint``, ``uvarint``,
``zigzag``, ``unzigzag``, ``ThriftError``.
"""
import struct as _struct

from . import idl as _idl


class ThriftError(Exception):
    pass


CT_STOP = 0
CT_TRUE = 1
CT_FALSE = 2
CT_BYTE = 3
CT_I16 = 4
CT_I32 = 5
CT_I64 = 6
CT_DOUBLE = 7
CT_BINARY = 8
CT_LIST = 9
CT_SET = 10
CT_MAP = 11
CT_STRUCT = 12

WIRE_NAMES = {
    0: "stop", 1: "true", 2: "false", 3: "byte", 4: "i16", 5: "i32", 6: "i64",
    7: "double", 8: "binary", 9: "list", 10: "set", 11: "map", 12: "struct",
}

_MAX_DEPTH = 64

_INT_RANGE = {
    "byte": (-(1 << 7), (1 << 7) - 1),
    "i16": (-(1 << 15), (1 << 15) - 1),
    "i32": (-(1 << 31), (1 << 31) - 1),
    "i64": (-(1 << 63), (1 << 63) - 1),
}


def _wn(t):
    return "%s(%d)" % (WIRE_NAMES.get(t, "?"), t)


def expected_wire(t):
    """Set of acceptable compact wire types for a declared IDL type."""
    k = t[0]
    if k == "bool":
        return (CT_TRUE, CT_FALSE)
    if k == "byte":
        return (CT_BYTE,)
    if k == "i16":
        return (CT_I16,)
    if k in ("i32", "enum"):
        return (CT_I32,)
    if k == "i64":
        return (CT_I64,)
    if k == "double":
        return (CT_DOUBLE,)
    if k in ("binary", "string"):
        return (CT_BINARY,)
    if k == "list":
        return (CT_LIST,)
    if k == "struct":
        return (CT_STRUCT,)
    raise ValueError(t)


# ---------------------------------------------------------------- varints

def zigzag(n):
    """Signed -> unsigned zig-zag mapping (works for any width)."""
    return (n << 1) if n >= 0 else ((-n) << 1) - 1


def unzigzag(n):
    return (n >> 1) ^ -(n & 1)


def uvarint(n):
    if n < 0:
        raise ValueError("uvarint of negative number")
    out = bytearray()
    while True:
        b = n & 0x7F
        n >>= 7
        if n:
            out.append(b | 0x80)
        else:
            out.append(b)
            return bytes(out)


def read_uvarint(buf, pos):
    """Read an unsigned LEB128 varint (at most 10 bytes) -> (value, new pos)."""
    result = 0
    shift = 0
    n = len(buf)
    start = pos
    while True:
        if pos >= n:
            raise ThriftError("truncated varint at %d" % start)
        b = buf[pos]
        pos += 1
        result |= (b & 0x7F) << shift
        if not (b & 0x80):
            return result, pos
        shift += 7
        if pos - start >= 10:
            raise ThriftError("varint longer than 10 bytes at %d" % start)


def _read_zz(buf, pos):
    v, pos = read_uvarint(buf, pos)
    return unzigzag(v), pos


# ---------------------------------------------------------------- generic walker

def _read_generic(buf, pos, wt, depth):
    """Schema-less read of one value of wire type ``wt``.

    Returns (raw, pos).  raw is: bool, int, float, bytes, ('list', elemtype,
    [raw...]), ('map', ktype, vtype, [(k, v)...]) or a list of
    (field id, wire type, raw) for structs.
    """
    if depth > _MAX_DEPTH:
        raise ThriftError("nesting deeper than %d" % _MAX_DEPTH)
    n = len(buf)
    if wt == CT_TRUE:
        return True, pos
    if wt == CT_FALSE:
        return False, pos
    if wt == CT_BYTE:
        if pos >= n:
            raise ThriftError("truncated byte at %d" % pos)
        v = buf[pos]
        return (v - 256 if v >= 128 else v), pos + 1
    if wt in (CT_I16, CT_I32, CT_I64):
        return _read_zz(buf, pos)
    if wt == CT_DOUBLE:
        if pos + 8 > n:
            raise ThriftError("truncated double at %d" % pos)
        return _struct.unpack_from("<d", buf, pos)[0], pos + 8
    if wt == CT_BINARY:
        ln, p = read_uvarint(buf, pos)
        if p + ln > n:
            raise ThriftError("binary of length %d at %d overruns buffer" % (ln, pos))
        return bytes(buf[p:p + ln]), p + ln
    if wt in (CT_LIST, CT_SET):
        et, size, p = _read_list_header(buf, pos)
        items = []
        for _ in range(size):
            if et in (CT_TRUE, CT_FALSE):
                if p >= n:
                    raise ThriftError("truncated bool list at %d" % p)
                items.append(buf[p])
                p += 1
            else:
                v, p = _read_generic(buf, p, et, depth + 1)
                items.append(v)
        return ("list", et, items), p
    if wt == CT_MAP:
        size, p = read_uvarint(buf, pos)
        if size == 0:
            return ("map", 0, 0, []), p
        if p >= n:
            raise ThriftError("truncated map header at %d" % p)
        kv = buf[p]
        p += 1
        kt, vt = kv >> 4, kv & 0x0F
        if size > n - p:
            raise ThriftError("map of %d entries at %d overruns buffer" % (size, pos))
        items = []
        for _ in range(size):
            k, p = _read_elem(buf, p, kt, depth)
            v, p = _read_elem(buf, p, vt, depth)
            items.append((k, v))
        return ("map", kt, vt, items), p
    if wt == CT_STRUCT:
        return _tokenize_struct(buf, pos, depth + 1)
    raise ThriftError("bad wire type %d at %d" % (wt, pos))


def _read_elem(buf, pos, et, depth):
    if et in (CT_TRUE, CT_FALSE):
        if pos >= len(buf):
            raise ThriftError("truncated bool element at %d" % pos)
        return buf[pos], pos + 1
    return _read_generic(buf, pos, et, depth + 1)


def _read_list_header(buf, pos):
    if pos >= len(buf):
        raise ThriftError("truncated list header at %d" % pos)
    h = buf[pos]
    pos += 1
    et = h & 0x0F
    size = h >> 4
    if size == 15:
        size, pos = read_uvarint(buf, pos)
    if et > CT_STRUCT or (et == CT_STOP and size):
        raise ThriftError("bad list element type %d at %d" % (et, pos - 1))
    if size > len(buf) - pos:
        # every element, even an empty struct, occupies at least one byte
        raise ThriftError("list of %d elements at %d overruns buffer" % (size, pos))
    return et, size, pos


def _read_field_header(buf, pos, last_id):
    """-> (wire type, field id, pos); wire type 0 means STOP."""
    if pos >= len(buf):
        raise ThriftError("truncated struct (no STOP) at %d" % pos)
    b = buf[pos]
    pos += 1
    if b == 0:
        return CT_STOP, 0, pos
    wt = b & 0x0F
    delta = b >> 4
    if wt == 0 or wt > CT_STRUCT:
        raise ThriftError("bad type nibble %d in field header at %d" % (wt, pos - 1))
    if delta:
        fid = last_id + delta
    else:
        fid, pos = _read_zz(buf, pos)
    return wt, fid, pos


def _tokenize_struct(buf, pos, depth):
    out = []
    last = 0
    while True:
        wt, fid, pos = _read_field_header(buf, pos, last)
        if wt == CT_STOP:
            return out, pos
        raw, pos = _read_generic(buf, pos, wt, depth)
        out.append((fid, wt, raw))
        last = fid


def tokenize(buf, pos=0):
    """Schema-less walk of one struct: nested list of (field id, wire type, raw)."""
    toks, end = _tokenize_struct(buf, pos, 0)
    return toks, end


# ---------------------------------------------------------------- strict decoder

def decode(buf, struct_name, pos=0):
    """Strictly decode one struct -> (value dict, end pos, issues)."""
    idl = _idl.load()
    if struct_name not in idl.structs:
        raise KeyError(struct_name)
    issues = []
    value, end = _dec_struct(idl, buf, pos, struct_name, issues, 0)
    return value, end, issues


def _dec_struct(idl, buf, pos, sname, issues, depth):
    if depth > _MAX_DEPTH:
        raise ThriftError("nesting deeper than %d" % _MAX_DEPTH)
    by_id = idl.fields_by_id(sname)
    out = {}
    last = 0
    nset = 0
    while True:
        hdr_at = pos
        wt, fid, pos = _read_field_header(buf, pos, last)
        if wt == CT_STOP:
            break
        if fid <= last:
            issues.append("field_order %s: id %d after %d at %d" % (sname, fid, last, hdr_at))
        if fid < -32768 or fid > 32767:
            issues.append("int_range %s: field id %d outside i16 at %d" % (sname, fid, hdr_at))
        last = fid
        f = by_id.get(fid)
        if f is None:
            raw, pos = _read_generic(buf, pos, wt, depth + 1)
            issues.append("unknown_field %s id=%d type=%s at %d" % (sname, fid, _wn(wt), hdr_at))
            continue
        nset += 1
        where = "%s.%s" % (sname, f.name)
        if f.name in out:
            issues.append("duplicate_field %s at %d" % (where, hdr_at))
        exp = expected_wire(f.type)
        if wt not in exp:
            issues.append("wire_type %s: got %s expected %s" % (where, _wn(wt), _wn(exp[0])))
            raw, pos = _read_generic(buf, pos, wt, depth + 1)
            # keep the value when it is of a compatible family, so that callers
            # can continue to analyse the file
            kind = f.type[0]
            if kind in ("byte", "i16", "i32", "i64", "enum") and wt in (CT_BYTE, CT_I16, CT_I32, CT_I64):
                out[f.name] = raw
                _check_int(f.type, raw, where, issues, idl)
            elif kind == "bool" and isinstance(raw, bool):
                out[f.name] = raw
            continue
        val, pos = _dec_value(idl, buf, pos, f.type, wt, where, issues, depth)
        out[f.name] = val
    for f in idl.structs[sname]:
        if f.req == "required" and f.name not in out:
            issues.append("missing_required %s.%s" % (sname, f.name))
    if sname in idl.unions and nset != 1:
        issues.append("union_arity %s: %d fields set" % (sname, nset))
    return out, pos


def _check_int(t, v, where, issues, idl):
    kind = t[0]
    if kind == "enum":
        lo, hi = _INT_RANGE["i32"]
        if not (lo <= v <= hi):
            issues.append("int_range %s: value out of declared width" % where)
        if v not in idl.enum_names[t[1]]:
            issues.append("enum_value %s: %d not in %s" % (where, v, t[1]))
        return
    lo, hi = _INT_RANGE[kind]
    if not (lo <= v <= hi):
        issues.append("int_range %s: value out of declared width" % where)


def _dec_value(idl, buf, pos, t, wt, where, issues, depth):
    kind = t[0]
    n = len(buf)
    if kind == "bool":
        return wt == CT_TRUE, pos
    if kind == "byte":
        if pos >= n:
            raise ThriftError("truncated byte at %d" % pos)
        v = buf[pos]
        return (v - 256 if v >= 128 else v), pos + 1
    if kind in ("i16", "i32", "i64", "enum"):
        v, pos = _read_zz(buf, pos)
        _check_int(t, v, where, issues, idl)
        return v, pos
    if kind == "double":
        if pos + 8 > n:
            raise ThriftError("truncated double at %d" % pos)
        return _struct.unpack_from("<d", buf, pos)[0], pos + 8
    if kind in ("binary", "string"):
        ln, p = read_uvarint(buf, pos)
        if p + ln > n:
            raise ThriftError("binary of length %d at %d overruns buffer (%s)" % (ln, pos, where))
        return bytes(buf[p:p + ln]), p + ln
    if kind == "struct":
        return _dec_struct(idl, buf, pos, t[1], issues, depth + 1)
    if kind == "list":
        if wt == CT_SET:
            issues.append("wire_type %s: got set(10) expected list(9)" % where)
        et, size, pos = _read_list_header(buf, pos)
        elem = t[1]
        exp = expected_wire(elem)
        ok = et in exp
        if not ok:
            if size == 0:
                issues.append("note empty_list_elem_type %s: got %s expected %s" % (where, _wn(et), _wn(exp[0])))
                return [], pos
            issues.append("list_elem_type %s: got %s expected %s" % (where, _wn(et), _wn(exp[0])))
            items = []
            for _ in range(size):
                raw, pos = _read_elem(buf, pos, et, depth)
                if elem[0] in ("byte", "i16", "i32", "i64", "enum") and et in (CT_BYTE, CT_I16, CT_I32, CT_I64):
                    _check_int(elem, raw, where + "[]", issues, idl)
                    items.append(raw)
            return items, pos
        items = []
        if elem[0] == "bool":
            for i in range(size):
                if pos >= n:
                    raise ThriftError("truncated bool list at %d (%s)" % (pos, where))
                b = buf[pos]
                pos += 1
                if b == 1:
                    items.append(True)
                elif b == 2:
                    items.append(False)
                elif b == 0:
                    issues.append("note bool_elem_zero %s[%d]: false encoded as 0" % (where, i))
                    items.append(False)
                else:
                    issues.append("bool_elem %s[%d]: byte %d is neither 1 nor 2" % (where, i, b))
                    items.append(bool(b))
            return items, pos
        ew = where + "[]"
        for _ in range(size):
            v, pos = _dec_value(idl, buf, pos, elem, et, ew, issues, depth + 1)
            items.append(v)
        return items, pos
    raise ValueError(t)


def real_issues(issues):
    """Filter out the 'note ...' entries."""
    return [i for i in issues if not i.startswith("note ")]


# ---------------------------------------------------------------- encoder

def encode(value, struct_name):
    """Canonical compact encoding of ``value`` (dict keyed by field name)."""
    idl = _idl.load()
    out = bytearray()
    _enc_struct(idl, out, value, struct_name)
    return bytes(out)


def _enc_struct(idl, out, value, sname):
    if not isinstance(value, dict):
        raise ThriftError("encode %s: expected dict, got %r" % (sname, type(value)))
    fields = idl.structs[sname]
    known = set(f.name for f in fields)
    for k in value:
        if k not in known:
            raise ThriftError("encode %s: unknown field %r" % (sname, k))
    last = 0
    for f in sorted(fields, key=lambda f: f.id):
        if f.name not in value or value[f.name] is None:
            if f.req == "required":
                raise ThriftError("encode %s: required field %s missing" % (sname, f.name))
            continue
        v = value[f.name]
        kind = f.type[0]
        if kind == "bool":
            wt = CT_TRUE if v else CT_FALSE
        else:
            wt = expected_wire(f.type)[0]
        delta = f.id - last
        if 0 < delta <= 15:
            out.append((delta << 4) | wt)
        else:
            out.append(wt)
            out += uvarint(zigzag(f.id))
        last = f.id
        if kind != "bool":
            _enc_value(idl, out, v, f.type, "%s.%s" % (sname, f.name))
    out.append(0)


def _enc_value(idl, out, v, t, where):
    kind = t[0]
    if kind == "bool":
        out.append(1 if v else 2)
    elif kind == "byte":
        v = int(v)
        if not -128 <= v <= 127:
            raise ThriftError("encode %s: %d outside i8" % (where, v))
        out.append(v & 0xFF)
    elif kind in ("i16", "i32", "i64", "enum"):
        if kind == "enum" and isinstance(v, str):
            v = idl.enums[t[1]][v]
        v = int(v)
        lo, hi = _INT_RANGE["i32" if kind == "enum" else kind]
        if not lo <= v <= hi:
            raise ThriftError("encode %s: %d outside %s" % (where, v, kind))
        out += uvarint(zigzag(v))
    elif kind == "double":
        out += _struct.pack("<d", v)
    elif kind in ("binary", "string"):
        if isinstance(v, str):
            v = v.encode("utf-8")
        v = bytes(v)
        out += uvarint(len(v))
        out += v
    elif kind == "struct":
        _enc_struct(idl, out, v, t[1])
    elif kind == "list":
        elem = t[1]
        et = CT_TRUE if elem[0] == "bool" else expected_wire(elem)[0]
        n = len(v)
        if n < 15:
            out.append((n << 4) | et)
        else:
            out.append(0xF0 | et)
            out += uvarint(n)
        for x in v:
            _enc_value(idl, out, x, elem, where + "[]")
    else:
        raise ValueError(t)
