"""Page compression codecs.

* UNCOMPRESSED - identity.
* SNAPPY       - raw snappy block (no framing).  Decompression: own pure-Python
                 decoder written from google/snappy format_description.txt.
                 Compression: cramjam.snappy.compress_raw.
* GZIP         - RFC 1952 gzip container via stdlib zlib.
* ZSTD, BROTLI - cramjam (trusted base; not part of fastparquet).
* LZ4_RAW      - one LZ4 *block* (lz4_Block_format.md).  Decompression: own
                 pure-Python decoder.  Compression: cramjam.lz4.compress_block
                 with store_size=False.
* LZ4 (id 5, deprecated) - ambiguous in the wild.  parquet-mr wrote Hadoop
                 framing ([4-byte BE uncompressed size][4-byte BE compressed
                 size][LZ4 block])*, fastparquet writes a bare LZ4 block.
                 ``decompress`` first tries Hadoop framing with strict
                 validation and otherwise falls back to a bare block;
                 ``compress`` emits a bare block.  The LZ4 *frame* format
                 (magic 04 22 4D 18) is not supported.
"""
import zlib

import cramjam


class CodecError(Exception):
    pass


CODEC_IDS = {
    "UNCOMPRESSED": 0,
    "SNAPPY": 1,
    "GZIP": 2,
    "LZO": 3,
    "BROTLI": 4,
    "LZ4": 5,
    "ZSTD": 6,
    "LZ4_RAW": 7,
}
CODEC_NAMES = dict((v, k) for k, v in CODEC_IDS.items())
SUPPORTED = ("UNCOMPRESSED", "SNAPPY", "GZIP", "BROTLI", "LZ4", "ZSTD", "LZ4_RAW")

# which LZ4 (id 5) layout the last decompress call found: 'hadoop' | 'raw'
LAST_LZ4_LAYOUT = [None]


# --------------------------------------------------------------------- snappy

def snappy_decompress_raw(data):
    """Raw snappy: uvarint uncompressed length, then elements.

    tag & 3 == 0: literal; (tag >> 2) + 1 = length when < 60, otherwise
                  60..63 mean 1..4 following bytes hold length-1 (LE).
    tag & 3 == 1: copy, length 4 + ((tag >> 2) & 7), offset = (tag >> 5) << 8 | next byte
    tag & 3 == 2: copy, length (tag >> 2) + 1, offset = next 2 bytes LE
    tag & 3 == 3: copy, length (tag >> 2) + 1, offset = next 4 bytes LE
    """
    n = len(data)
    pos = 0
    total = 0
    shift = 0
    while True:
        if pos >= n:
            raise CodecError("snappy: truncated length preamble")
        b = data[pos]
        pos += 1
        total |= (b & 0x7F) << shift
        if not b & 0x80:
            break
        shift += 7
        if shift > 35:
            raise CodecError("snappy: length preamble too long")
    out = bytearray()
    while pos < n:
        tag = data[pos]
        pos += 1
        kind = tag & 3
        if kind == 0:
            ln = tag >> 2
            if ln >= 60:
                extra = ln - 59
                if pos + extra > n:
                    raise CodecError("snappy: truncated literal length")
                ln = int.from_bytes(data[pos:pos + extra], "little")
                pos += extra
            ln += 1
            if pos + ln > n:
                raise CodecError("snappy: literal of %d bytes overruns input" % ln)
            out += data[pos:pos + ln]
            pos += ln
            continue
        if kind == 1:
            ln = 4 + ((tag >> 2) & 7)
            if pos + 1 > n:
                raise CodecError("snappy: truncated copy")
            off = ((tag >> 5) << 8) | data[pos]
            pos += 1
        elif kind == 2:
            ln = (tag >> 2) + 1
            if pos + 2 > n:
                raise CodecError("snappy: truncated copy")
            off = data[pos] | (data[pos + 1] << 8)
            pos += 2
        else:
            ln = (tag >> 2) + 1
            if pos + 4 > n:
                raise CodecError("snappy: truncated copy")
            off = int.from_bytes(data[pos:pos + 4], "little")
            pos += 4
        if off == 0 or off > len(out):
            raise CodecError("snappy: copy offset %d with %d bytes produced" % (off, len(out)))
        start = len(out) - off
        if off >= ln:
            out += out[start:start + ln]
        else:
            for i in range(ln):
                out.append(out[start + i])
        if len(out) > total:
            raise CodecError("snappy: output exceeds declared length %d" % total)
    if len(out) != total:
        raise CodecError("snappy: produced %d bytes, preamble says %d" % (len(out), total))
    return bytes(out)


# --------------------------------------------------------------------- lz4 block

def lz4_block_decompress(data, max_size=None):
    """One LZ4 block: sequences of
    token (hi nibble literal length, lo nibble match length - 4; 15 = add the
    following bytes until one is < 255), literals, 2-byte LE offset, optional
    match length extension.  The last sequence stops after its literals."""
    n = len(data)
    pos = 0
    out = bytearray()
    if n == 0:
        return b""
    while True:
        if pos >= n:
            raise CodecError("lz4: truncated (no token)")
        token = data[pos]
        pos += 1
        lit = token >> 4
        if lit == 15:
            while True:
                if pos >= n:
                    raise CodecError("lz4: truncated literal length")
                b = data[pos]
                pos += 1
                lit += b
                if b != 255:
                    break
        if pos + lit > n:
            raise CodecError("lz4: literals overrun input")
        out += data[pos:pos + lit]
        pos += lit
        if pos == n:
            if token & 0x0F:
                # last sequence must not carry a match; match nibble is ignored by
                # reference decoders only when input ends exactly here
                pass
            break
        if pos + 2 > n:
            raise CodecError("lz4: truncated offset")
        off = data[pos] | (data[pos + 1] << 8)
        pos += 2
        ml = token & 0x0F
        if ml == 15:
            while True:
                if pos >= n:
                    raise CodecError("lz4: truncated match length")
                b = data[pos]
                pos += 1
                ml += b
                if b != 255:
                    break
        ml += 4
        if off == 0 or off > len(out):
            raise CodecError("lz4: offset %d with %d bytes produced" % (off, len(out)))
        start = len(out) - off
        if off >= ml:
            out += out[start:start + ml]
        else:
            for i in range(ml):
                out.append(out[start + i])
        if max_size is not None and len(out) > max_size:
            raise CodecError("lz4: output exceeds %d bytes" % max_size)
    if max_size is not None and len(out) > max_size:
        raise CodecError("lz4: output exceeds %d bytes" % max_size)
    return bytes(out)


def _lz4_hadoop_decompress(data, uncompressed_size):
    """Hadoop framing: ([BE32 uncompressed][BE32 compressed][block])+ ; returns
    None when the input does not look like it."""
    n = len(data)
    pos = 0
    out = bytearray()
    while pos < n:
        if pos + 8 > n:
            return None
        usz = int.from_bytes(data[pos:pos + 4], "big")
        csz = int.from_bytes(data[pos + 4:pos + 8], "big")
        pos += 8
        if csz > n - pos:
            return None
        if uncompressed_size is not None and len(out) + usz > uncompressed_size:
            return None
        try:
            part = lz4_block_decompress(data[pos:pos + csz], usz)
        except CodecError:
            return None
        if len(part) != usz:
            return None
        out += part
        pos += csz
    if uncompressed_size is not None and len(out) != uncompressed_size:
        return None
    return bytes(out)


# --------------------------------------------------------------------- API

def compress(codec_name, data):
    data = bytes(data)
    if codec_name == "UNCOMPRESSED":
        return data
    if codec_name == "SNAPPY":
        return bytes(cramjam.snappy.compress_raw(data))
    if codec_name == "GZIP":
        c = zlib.compressobj(6, zlib.DEFLATED, 31)
        return c.compress(data) + c.flush()
    if codec_name == "ZSTD":
        return bytes(cramjam.zstd.compress(data))
    if codec_name == "BROTLI":
        return bytes(cramjam.brotli.compress(data))
    if codec_name in ("LZ4_RAW", "LZ4"):
        return bytes(cramjam.lz4.compress_block(data, store_size=False))
    raise CodecError("cannot compress with codec %r" % (codec_name,))


def decompress(codec_name, data, uncompressed_size=None):
    """Decompress; when ``uncompressed_size`` is given the result must have
    exactly that length (CodecError otherwise)."""
    data = bytes(data)
    try:
        if codec_name == "UNCOMPRESSED":
            out = data
        elif codec_name == "SNAPPY":
            out = snappy_decompress_raw(data)
        elif codec_name == "GZIP":
            d = zlib.decompressobj(47)
            out = d.decompress(data)
            out += d.flush()
            if not d.eof:
                raise CodecError("gzip: stream is truncated")
            if d.unused_data:
                raise CodecError("gzip: %d unused bytes after the stream" % len(d.unused_data))
        elif codec_name == "ZSTD":
            out = bytes(cramjam.zstd.decompress(data))
        elif codec_name == "BROTLI":
            out = bytes(cramjam.brotli.decompress(data))
        elif codec_name == "LZ4_RAW":
            out = lz4_block_decompress(data, uncompressed_size)
        elif codec_name == "LZ4":
            out = _lz4_hadoop_decompress(data, uncompressed_size)
            if out is not None:
                LAST_LZ4_LAYOUT[0] = "hadoop"
            else:
                out = lz4_block_decompress(data, uncompressed_size)
                LAST_LZ4_LAYOUT[0] = "raw"
        else:
            raise CodecError("unsupported codec %r" % (codec_name,))
    except CodecError:
        raise
    except Exception as e:  # zlib.error, cramjam errors
        raise CodecError("%s: %s: %s" % (codec_name, type(e).__name__, e))
    if uncompressed_size is not None and len(out) != uncompressed_size:
        raise CodecError("%s: decompressed to %d bytes, expected %d" % (codec_name, len(out), uncompressed_size))
    return out
