"""Deterministic pseudo-random writer plans (used by the self test and handy
for smoke tests).  ``random_plan(rng)`` takes a ``random.Random`` and returns a
plan for ``refpq.writer``; nothing else is consulted (no clock, no global
random state)."""
import struct

from . import dremel

CODECS = ["UNCOMPRESSED", "SNAPPY", "GZIP", "ZSTD", "LZ4_RAW", "LZ4", "BROTLI"]

# (physical, extra node fields, value kind)
FLAT_TYPES = [
    ("BOOLEAN", {}, "bool"),
    ("INT32", {}, "i32"),
    ("INT32", {"converted": "INT_8"}, "i8"),
    ("INT32", {"converted": "INT_16"}, "i16"),
    ("INT32", {"converted": "INT_32"}, "i32"),
    ("INT32", {"converted": "UINT_8"}, "u8"),
    ("INT32", {"converted": "UINT_16"}, "u16"),
    ("INT32", {"converted": "UINT_32"}, "u32"),
    ("INT32", {"logical": {"INTEGER": {"bitWidth": 16, "isSigned": False}}, "converted": "UINT_16"}, "u16"),
    ("INT32", {"converted": "DATE"}, "i32"),
    ("INT32", {"converted": "TIME_MILLIS"}, "time_ms"),
    ("INT32", {"converted": "DECIMAL", "precision": 9, "scale": 2}, "dec9"),
    ("INT64", {}, "i64"),
    ("INT64", {"converted": "INT_64"}, "i64"),
    ("INT64", {"converted": "UINT_64"}, "u64"),
    ("INT64", {"converted": "TIMESTAMP_MILLIS"}, "i64"),
    ("INT64", {"converted": "TIMESTAMP_MICROS"}, "i64"),
    ("INT64", {"logical": {"TIMESTAMP": {"isAdjustedToUTC": True, "unit": {"NANOS": {}}}}}, "i64"),
    ("INT64", {"logical": {"TIMESTAMP": {"isAdjustedToUTC": False, "unit": {"MICROS": {}}}}, "converted": "TIMESTAMP_MICROS"}, "i64"),
    ("INT64", {"converted": "TIME_MICROS"}, "time_us"),
    ("INT64", {"converted": "DECIMAL", "precision": 18, "scale": 3}, "dec18"),
    ("INT96", {}, "i96"),
    ("FLOAT", {}, "f32"),
    ("DOUBLE", {}, "f64"),
    ("BYTE_ARRAY", {}, "bytes"),
    ("BYTE_ARRAY", {"converted": "UTF8"}, "text"),
    ("BYTE_ARRAY", {"logical": {"STRING": {}}, "converted": "UTF8"}, "text"),
    ("BYTE_ARRAY", {"converted": "JSON"}, "json"),
    ("BYTE_ARRAY", {"converted": "ENUM"}, "text"),
    ("BYTE_ARRAY", {"converted": "DECIMAL", "precision": 30, "scale": 5}, "dec30"),
    ("FIXED_LEN_BYTE_ARRAY", {"type_length": 5}, "fixed5"),
    ("FIXED_LEN_BYTE_ARRAY", {"type_length": 0}, "fixed0"),
    ("FIXED_LEN_BYTE_ARRAY", {"type_length": 7, "converted": "DECIMAL", "precision": 16, "scale": 4}, "dec16"),
]

ELEMENT_TYPES = [
    ("INT32", {}, "i32"), ("INT64", {}, "i64"), ("DOUBLE", {}, "f64"),
    ("BYTE_ARRAY", {"converted": "UTF8"}, "text"), ("BOOLEAN", {}, "bool"),
]

_TEXTS = ["", "a", "b", "abc", "abd", "hello", "hellp", "z" * 20, "été", "日本", "\U0001f600", "x y", "a\x00b"]
_FLOATS = [0.0, -0.0, 1.0, -1.0, 1.5, float("inf"), float("-inf"), float("nan"), 1e-310, 3.141592653589793, 1e300, -2.5]


def _magnitude(rng, bits):
    k = rng.randrange(0, bits)
    v = rng.getrandbits(k) if k else 0
    return v


def value(rng, kind, narrow):
    """One non-null plan value.  ``narrow``: draw from a small domain."""
    if kind == "bool":
        return rng.random() < 0.5
    if kind in ("i8", "i16", "i32", "i64"):
        bits = int(kind[1:])
        if narrow:
            return rng.randrange(-3, 4)
        if rng.random() < 0.1:
            return rng.choice([-(1 << (bits - 1)), (1 << (bits - 1)) - 1, 0, -1])
        v = _magnitude(rng, bits)
        return -v - 1 if rng.random() < 0.5 else v
    if kind in ("u8", "u16", "u32", "u64"):
        bits = int(kind[1:])
        if narrow:
            return rng.randrange(0, 5)
        if rng.random() < 0.1:
            return rng.choice([0, (1 << bits) - 1, 1 << (bits - 1)])
        return _magnitude(rng, bits + 1) % (1 << bits)
    if kind == "time_ms":
        return rng.randrange(0, 86400000)
    if kind == "time_us":
        return rng.randrange(0, 86400000000)
    if kind == "dec9":
        return rng.randrange(-999999999, 1000000000) if not narrow else rng.randrange(-2, 3)
    if kind == "dec18":
        return rng.randrange(-10 ** 18 + 1, 10 ** 18) if not narrow else rng.randrange(-2, 3)
    if kind == "dec30":
        return rng.randrange(-10 ** 30 + 1, 10 ** 30) if not narrow else rng.randrange(-300, 300)
    if kind == "dec16":
        return rng.randrange(-10 ** 16 + 1, 10 ** 16) if not narrow else rng.randrange(-2, 3)
    if kind == "i96":
        if narrow:
            return rng.choice([0, 1, 86400 * 10 ** 9 - 1, -1, 1470092881000000000])
        return rng.randrange(-(10 ** 18) * 4, 4 * 10 ** 18)
    if kind == "f32":
        r = rng.random()
        if narrow or r < 0.4:
            return rng.choice(_FLOATS)      # the writer rounds to float32 (overflow -> inf)
        if r < 0.5:
            return {"hex": struct.pack("<I", rng.getrandbits(32)).hex()}
        return struct.unpack("<f", struct.pack("<f", rng.uniform(-1e6, 1e6)))[0]
    if kind == "f64":
        r = rng.random()
        if narrow or r < 0.4:
            return rng.choice(_FLOATS)
        if r < 0.5:
            return {"hex": struct.pack("<Q", rng.getrandbits(64)).hex()}
        return rng.uniform(-1e9, 1e9)
    if kind == "bytes":
        if narrow:
            return {"hex": rng.choice(["", "00", "ff", "0001", "6162"])}
        return {"hex": bytes(rng.getrandbits(8) for _ in range(rng.randrange(0, 12))).hex()}
    if kind == "text":
        if narrow:
            return rng.choice(_TEXTS[:5])
        return rng.choice(_TEXTS) + (str(rng.randrange(1000)) if rng.random() < 0.5 else "")
    if kind == "json":
        return rng.choice(['{"a": 1}', "[1, 2]", "null", '"s"', '{"k": [1, {"z": null}]}'])
    if kind == "fixed5":
        if narrow:
            return {"hex": rng.choice(["0000000000", "ffffffffff", "0102030405"])}
        return {"hex": bytes(rng.getrandbits(8) for _ in range(5)).hex()}
    if kind == "fixed0":
        return {"hex": ""}
    raise ValueError(kind)


def _runs(rng):
    if rng.random() < 0.4:
        return None
    out = []
    for _ in range(rng.randrange(1, 7)):
        if rng.random() < 0.5:
            out.append(["rle", rng.choice([1, 2, 3, 7, 8, 9, 16, 63, 64, 65])])
        else:
            out.append(["bp", rng.choice([1, 1, 2, 3, 8, 9])])
    return out


def _encodings_for(physical):
    encs = ["PLAIN", "PLAIN", "PLAIN_DICTIONARY", "RLE_DICTIONARY", "RLE_DICTIONARY"]
    if physical == "BOOLEAN":
        encs += ["RLE", "RLE"]
    if physical in ("INT32", "INT64"):
        encs += ["DELTA_BINARY_PACKED", "DELTA_BINARY_PACKED", "BYTE_STREAM_SPLIT"]
    if physical == "BYTE_ARRAY":
        encs += ["DELTA_LENGTH_BYTE_ARRAY", "DELTA_BYTE_ARRAY"]
    if physical == "FIXED_LEN_BYTE_ARRAY":
        encs += ["DELTA_BYTE_ARRAY", "BYTE_STREAM_SPLIT"]
    if physical in ("FLOAT", "DOUBLE"):
        encs += ["BYTE_STREAM_SPLIT"]
    return encs


def chunk_plan(rng, physical, n_entries, nested, exotic=True):
    cp = {"codec": rng.choice(CODECS)}
    encs = _encodings_for(physical)
    if not exotic:
        encs = [e for e in encs if e in ("PLAIN", "PLAIN_DICTIONARY", "RLE_DICTIONARY", "RLE", "DELTA_BINARY_PACKED")]
        if physical == "BOOLEAN":
            encs = [e for e in encs if e in ("PLAIN", "RLE")]
    pages = []
    npages = rng.choice([1, 1, 2, 3, 5])
    fallback_after = rng.randrange(0, npages + 1) if rng.random() < 0.3 else None
    base = rng.choice(encs)
    for i in range(npages):
        pp = {}
        if i < npages - 1:
            pp["n"] = rng.randrange(0, max(2, n_entries))
        pp["version"] = rng.choice([1, 2])
        e = base if rng.random() < 0.7 else rng.choice(encs)
        if fallback_after is not None and i >= fallback_after:
            e = "PLAIN"
        pp["encoding"] = e
        if e in ("PLAIN_DICTIONARY", "RLE_DICTIONARY"):
            r = rng.random()
            if r < 0.5:
                pp["bit_width"] = rng.randrange(0, 33)
            pp["index_runs"] = _runs(rng)
        if e == "RLE":
            pp["value_runs"] = _runs(rng)
        if e in ("DELTA_BINARY_PACKED", "DELTA_LENGTH_BYTE_ARRAY", "DELTA_BYTE_ARRAY"):
            pp["delta"] = rng.choice([{"block_size": 128, "miniblocks": 4}, {"block_size": 128, "miniblocks": 1},
                                      {"block_size": 256, "miniblocks": 8}, {"block_size": 128, "miniblocks": 2},
                                      {"block_size": 384, "miniblocks": 3}])
        pp["def_runs"] = _runs(rng)
        pp["rep_runs"] = _runs(rng)
        if pp["version"] == 2:
            pp["is_compressed"] = rng.choice([None, True, False])
        elif exotic:
            if rng.random() < 0.08:
                pp["level_encoding"] = "BIT_PACKED"
            if rng.random() < 0.08:
                pp["trailing_bytes"] = rng.randrange(1, 9)
        if exotic and rng.random() < 0.08:
            pp["truncate_last_group"] = True
        pages.append(pp)
    cp["pages"] = pages
    r = rng.random()
    if r < 0.3:
        cp["stats"] = True
    elif r < 0.5:
        cp["stats"] = {"fields": rng.sample(["min", "max", "min_value", "max_value", "null_count", "distinct_count"], rng.randrange(1, 7))}
    if rng.random() < 0.2:
        cp["dictionary"] = "auto"
    if rng.random() < 0.2:
        cp["encoding_stats"] = False
    if rng.random() < 0.2:
        cp["crc"] = True
    return cp


def flat_column(rng, name):
    physical, extra, kind = rng.choice(FLAT_TYPES)
    node = {"name": name, "repetition": rng.choice(["REQUIRED", "OPTIONAL", "OPTIONAL"]), "physical": physical}
    node.update(extra)
    return node, kind


def nested_column(rng, name):
    physical, extra, kind = rng.choice(ELEMENT_TYPES)
    el = {"physical": physical}
    el.update(extra)
    shape = rng.choice(["list3", "list3", "list2p", "list2a", "list2t", "map", "map_legacy"])
    if shape == "list3":
        node = dremel.list_schema(name, el, rng.random() < 0.6, rng.random() < 0.6, "3level")
    elif shape == "list2p":
        node = dremel.list_schema(name, el, rng.random() < 0.6, False, "2level_primitive")
    elif shape == "list2a":
        node = dremel.list_schema(name, el, rng.random() < 0.6, False, "2level_array")
    elif shape == "list2t":
        node = dremel.list_schema(name, el, rng.random() < 0.6, False, "2level_tuple")
    else:
        kphys, kextra, kkind = rng.choice([("BYTE_ARRAY", {"converted": "UTF8"}, "text"), ("INT32", {}, "i32"), ("INT64", {}, "i64")])
        k = {"physical": kphys}
        k.update(kextra)
        node = dremel.map_schema(name, k, el, rng.random() < 0.6, rng.random() < 0.6, shape == "map_legacy")
        return node, ("map", kkind, kind)
    return node, (shape, kind)


def nested_row(rng, node, kinds, narrow):
    shape = kinds[0]
    if node["repetition"] == "OPTIONAL" and rng.random() < 0.15:
        return None
    n = rng.choice([0, 0, 1, 1, 2, 3, 6])
    if shape == "map":
        kv = node["children"][0]
        vopt = kv["children"][1]["repetition"] == "OPTIONAL"
        out = []
        for _ in range(n):
            v = None if (vopt and rng.random() < 0.2) else value(rng, kinds[2], narrow)
            out.append([value(rng, kinds[1], narrow), v])
        return out
    if shape == "list3":
        eopt = node["children"][0]["children"][0]["repetition"] == "OPTIONAL"
        return [None if (eopt and rng.random() < 0.2) else value(rng, kinds[1], narrow) for _ in range(n)]
    if shape == "list2p":
        return [value(rng, kinds[1], narrow) for _ in range(n)]
    return [{"item": value(rng, kinds[1], narrow)} for _ in range(n)]


def random_plan(rng, max_rows=60, allow_nested=True, exotic=True):
    ncols = rng.randrange(1, 5)
    schema = []
    kinds = []
    for i in range(ncols):
        if allow_nested and rng.random() < 0.3:
            node, k = nested_column(rng, "n%d" % i)
        else:
            node, k = flat_column(rng, "c%d" % i)
        schema.append(node)
        kinds.append(k)
    plan = {"schema": schema, "row_groups": []}
    if rng.random() < 0.5:
        plan["created_by"] = rng.choice(["parquet-mr version 1.12.3 (build abc)", "parquet-cpp-arrow version 14.0.1", None])
    if rng.random() < 0.5:
        plan["kv"] = [["k%d" % i, rng.choice(["", "v", None, "é"])] for i in range(rng.randrange(0, 4))]
    plan["column_orders"] = rng.random() < 0.3
    plan["rg_optional_fields"] = rng.random() < 0.3
    plan["file_offset_mode"] = rng.choice(["start", "start", "zero", "after"])
    for _ in range(rng.choice([0, 1, 1, 2, 3])):
        nrows = rng.choice([0, 1, 2, 7, 8, 9, rng.randrange(0, max_rows + 1), rng.randrange(0, max_rows + 1)])
        data = {}
        chunks = {}
        for node, k in zip(schema, kinds):
            narrow = rng.random() < 0.5
            if isinstance(k, tuple):
                data[node["name"]] = [nested_row(rng, node, k, narrow) for _ in range(nrows)]
            else:
                opt = node["repetition"] == "OPTIONAL"
                pnull = rng.choice([0.0, 0.1, 0.5, 1.0]) if opt else 0.0
                data[node["name"]] = [None if rng.random() < pnull else value(rng, k, narrow) for _ in range(nrows)]
            for path, leaf, _d, _r in dremel.leaves_of(node):
                if rng.random() < 0.85:
                    est = nrows * (3 if isinstance(k, tuple) else 1)
                    chunks[".".join(path)] = chunk_plan(rng, leaf["physical"], est, isinstance(k, tuple), exotic)
        plan["row_groups"].append({"data": data, "chunks": chunks})
    return plan
