"""Strict Parquet file reader (oracle side).

``read(data, part_loader=None) -> ParquetData`` decodes a complete file image
and *checks* it against the format specification while doing so.  Violations
are collected as ``Issue(kind, where, detail)`` in ``ParquetData.issues``;
harmless, universally accepted deviations are counted in
``ParquetData.tolerances``; informational remarks go to ``ParquetData.notes``.
Issue kind ``unsupported`` marks a limitation of this reader (e.g. LZO), not a
defect of the file.

See README.md for the list of checks, kinds and tolerances.
"""
import struct
import zlib

from . import compact, codecs, encodings as enc, idl as _idl
from . import dremel
from .dremel import NULL, to_py  # noqa: F401  (re-exported)


class ReaderError(Exception):
    pass


class Issue(object):
    __slots__ = ("kind", "where", "detail")

    def __init__(self, kind, where, detail):
        self.kind = kind
        self.where = where
        self.detail = detail

    def __repr__(self):
        return "Issue(%s @ %s: %s)" % (self.kind, self.where, self.detail)

    def __eq__(self, other):
        return isinstance(other, Issue) and (self.kind, self.where, self.detail) == (other.kind, other.where, other.detail)

    def __hash__(self):
        return hash((self.kind, self.where, self.detail))

    def as_tuple(self):
        return (self.kind, self.where, self.detail)


class Leaf(object):
    """One primitive column of the schema."""

    def __init__(self):
        self.path = ()
        self.physical = None
        self.type_length = None
        self.converted = None
        self.logical = None
        self.scale = None
        self.precision = None
        self.field_id = None
        self.max_def = 0
        self.max_rep = 0
        self.repetitions = ()
        self.annotation = None   # normalised: ('INT', bits, signed) / ('DECIMAL', precision, scale) /
        #                          ('STRING',) ('JSON',) ('ENUM',) ('BSON',) ('UUID',) ('DATE',)
        #                          ('TIME', unit, utc) ('TIMESTAMP', unit, utc) ('INTERVAL',) ('UNKNOWN',) or None
        self.node = None

    @property
    def name(self):
        return ".".join(self.path)

    def __repr__(self):
        return "Leaf(%s %s %s def=%d rep=%d)" % (self.name, self.physical, self.annotation, self.max_def, self.max_rep)


class PageData(object):
    def __init__(self):
        self.kind = None
        self.header = None
        self.offset = None
        self.header_len = None
        self.encoding = None
        self.num_values = None
        self.num_nulls = None
        self.compressed = None      # compressed_page_size from the header
        self.uncompressed = None    # uncompressed_page_size from the header
        self.def_levels = None
        self.rep_levels = None
        self.values = None          # logical non-null values of this page (data pages)
        self.info = {}              # run structure, bit widths ... (diagnostics)

    def __repr__(self):
        return "Page(%s @%s enc=%s n=%s)" % (self.kind, self.offset, self.encoding, self.num_values)


class ChunkData(object):
    def __init__(self):
        self.meta = None
        self.column = None          # the ColumnChunk dict
        self.leaf = None
        self.file_path = None
        self.pages = []
        self.codec = None
        self.dictionary = None      # logical dictionary values or None
        self.def_levels = None
        self.rep_levels = None
        self.values = []
        self.float_bits = None      # raw IEEE bit patterns (int) of FLOAT/DOUBLE values
        self.slots = None
        self.stats = None
        self.start = None
        self.decoded = False        # True when every page was decoded


class RowGroupData(object):
    def __init__(self):
        self.meta = None
        self.num_rows = None
        self.chunks = {}


class ParquetData(object):
    def __init__(self):
        self.meta = None
        self.issues = []
        self.notes = []
        self.tolerances = {}
        self.footer_start = None
        self.footer_len = None
        self.created_by = None
        self.kv = []
        self.leaves = []
        self.schema_tree = None
        self.row_groups = []
        self.num_rows = None

    # ------------------------------------------------------------------ helpers
    def issue_kinds(self):
        return sorted(set(i.kind for i in self.issues))

    def leaf(self, path_or_name):
        if isinstance(path_or_name, str):
            for lf in self.leaves:
                if lf.name == path_or_name:
                    return lf
            cands = [lf for lf in self.leaves if lf.path[0] == path_or_name]
            if len(cands) == 1:
                return cands[0]
            raise KeyError(path_or_name)
        path = tuple(path_or_name)
        for lf in self.leaves:
            if lf.path == path:
                return lf
        raise KeyError(path_or_name)

    def column(self, path_or_name):
        """Slots (logical values with NULL) of a non-repeated column, all row groups."""
        lf = self.leaf(path_or_name)
        if lf.max_rep:
            raise ValueError("column %s is repeated; use rows()" % lf.name)
        out = []
        for rg in self.row_groups:
            ch = rg.chunks.get(lf.path)
            if ch is None or ch.slots is None:
                raise ReaderError("column %s was not decoded in some row group" % lf.name)
            out.extend(ch.slots)
        return out

    def top_level_names(self):
        if not self.schema_tree:
            return []
        return [c["name"] for c in self.schema_tree.get("children", [])]

    def rows(self, name):
        """Assembled logical rows (NULL sentinel for nulls) of a top-level field."""
        node = None
        for c in self.schema_tree.get("children", []):
            if c["name"] == name:
                node = c
        if node is None:
            raise KeyError(name)
        out = []
        for rg in self.row_groups:
            streams = {}
            for path, _leaf, _d, _r in dremel.leaves_of(node):
                ch = rg.chunks.get(path)
                if ch is None or not ch.decoded:
                    raise ReaderError("column %s was not decoded" % ".".join(path))
                n = len(ch.values) if ch.def_levels is None else len(ch.def_levels)
                defs = ch.def_levels if ch.def_levels is not None else [0] * n
                reps = ch.rep_levels if ch.rep_levels is not None else [0] * n
                streams[path] = (reps, defs, ch.values)
            out.extend(dremel.assemble(node, streams))
        return out

    def table(self):
        """{top level name: list of python values (None for null)} for every column."""
        out = {}
        for name in self.top_level_names():
            out[name] = [to_py(r) for r in self.rows(name)]
        return out


# =============================================================================
# schema
# =============================================================================

_REP = {0: "REQUIRED", 1: "OPTIONAL", 2: "REPEATED"}


def _b2s(b):
    if b is None:
        return None
    try:
        return b.decode("utf-8")
    except UnicodeDecodeError:
        return b.decode("utf-8", "replace")


def _logical_to_dict(lt):
    return lt


def _unit_name(u):
    if isinstance(u, dict):
        for k in ("MILLIS", "MICROS", "NANOS"):
            if k in u:
                return k
    return None


def _normalise_annotation(physical, converted, logical, scale, precision):
    """-> (annotation tuple or None, list of schema problems)."""
    problems = []
    from_logical = None
    if isinstance(logical, dict) and len(logical) == 1:
        k = list(logical.keys())[0]
        v = logical[k]
        if k == "STRING":
            from_logical = ("STRING",)
        elif k in ("ENUM", "JSON", "BSON", "UUID", "DATE", "UNKNOWN"):
            from_logical = (k,)
        elif k == "DECIMAL":
            from_logical = ("DECIMAL", v.get("precision"), v.get("scale"))
        elif k == "TIME":
            from_logical = ("TIME", _unit_name(v.get("unit")), v.get("isAdjustedToUTC"))
        elif k == "TIMESTAMP":
            from_logical = ("TIMESTAMP", _unit_name(v.get("unit")), v.get("isAdjustedToUTC"))
        elif k == "INTEGER":
            from_logical = ("INT", v.get("bitWidth"), v.get("isSigned"))
        elif k in ("MAP", "LIST"):
            from_logical = (k,)
    from_conv = None
    c = converted
    if c is not None:
        if c == "UTF8":
            from_conv = ("STRING",)
        elif c in ("ENUM", "JSON", "BSON", "DATE", "INTERVAL"):
            from_conv = (c,)
        elif c == "DECIMAL":
            from_conv = ("DECIMAL", precision, scale if scale is not None else 0)
        elif c == "TIME_MILLIS":
            from_conv = ("TIME", "MILLIS", True)
        elif c == "TIME_MICROS":
            from_conv = ("TIME", "MICROS", True)
        elif c == "TIMESTAMP_MILLIS":
            from_conv = ("TIMESTAMP", "MILLIS", True)
        elif c == "TIMESTAMP_MICROS":
            from_conv = ("TIMESTAMP", "MICROS", True)
        elif c.startswith("UINT_"):
            from_conv = ("INT", int(c[5:]), False)
        elif c.startswith("INT_"):
            from_conv = ("INT", int(c[4:]), True)
        elif c in ("LIST", "MAP", "MAP_KEY_VALUE"):
            from_conv = (c,)
    ann = from_logical if from_logical is not None else from_conv
    if from_logical is not None and from_conv is not None:
        a, b = from_logical, from_conv
        same = a[0] == b[0]
        if same and a[0] in ("TIME", "TIMESTAMP"):
            same = a[1] == b[1]          # the UTC flag cannot be expressed by converted types
        elif same and a[0] in ("INT", "DECIMAL"):
            same = a == b
        if not same:
            problems.append("converted_type %s disagrees with logicalType %s" % (converted, logical))
    if ann is not None and physical is not None:
        k = ann[0]
        ok = True
        if k in ("STRING", "ENUM", "JSON", "BSON"):
            ok = physical == "BYTE_ARRAY"
            if not ok and physical == "FIXED_LEN_BYTE_ARRAY":
                ok = True
                problems.append("note:%s annotation on FIXED_LEN_BYTE_ARRAY" % k)
        elif k == "UUID":
            ok = physical == "FIXED_LEN_BYTE_ARRAY"
        elif k == "DATE":
            ok = physical == "INT32"
        elif k == "TIME":
            ok = physical == ("INT32" if ann[1] == "MILLIS" else "INT64")
        elif k == "TIMESTAMP":
            ok = physical == "INT64"
        elif k == "INT":
            if ann[1] not in (8, 16, 32, 64):
                problems.append("integer annotation with bit width %r" % (ann[1],))
            ok = physical == ("INT64" if ann[1] == 64 else "INT32")
        elif k == "DECIMAL":
            ok = physical in ("INT32", "INT64", "FIXED_LEN_BYTE_ARRAY", "BYTE_ARRAY")
            p = ann[1]
            if p is None or p < 1:
                problems.append("DECIMAL without a positive precision")
            else:
                if physical == "INT32" and p > 9:
                    problems.append("DECIMAL precision %d on INT32" % p)
                if physical == "INT64" and p > 18:
                    problems.append("DECIMAL precision %d on INT64" % p)
            if ann[2] is not None and p is not None and (ann[2] < 0 or ann[2] > p):
                problems.append("DECIMAL scale %r outside 0..precision %r" % (ann[2], p))
        elif k == "INTERVAL":
            ok = physical == "FIXED_LEN_BYTE_ARRAY"
        elif k in ("LIST", "MAP", "MAP_KEY_VALUE"):
            ok = False
        if not ok:
            problems.append("annotation %s on physical type %s" % (k, physical))
    return ann, problems


def _build_schema(pd, elements, idl):
    """Flat SchemaElement list -> tree of dremel-style nodes; fills pd.leaves."""
    type_names = idl.enum_names["Type"]
    conv_names = idl.enum_names["ConvertedType"]
    if not elements:
        pd.issues.append(Issue("schema", "schema", "empty schema list"))
        return None
    pos = [0]

    def take(depth, is_root):
        if pos[0] >= len(elements):
            pd.issues.append(Issue("schema", "schema", "num_children runs past the end of the schema list"))
            return None
        idx = pos[0]
        el = elements[idx]
        pos[0] += 1
        name = _b2s(el.get("name", b""))
        where = "schema[%d] %s" % (idx, name)
        node = {"name": name, "_element": el, "_index": idx}
        try:
            el.get("name", b"").decode("utf-8")
        except UnicodeDecodeError:
            pd.issues.append(Issue("utf8", where, "schema element name is not valid UTF-8"))
        rt = el.get("repetition_type")
        if is_root:
            if rt is not None and rt != 0:
                pd.notes.append("schema root carries repetition_type %s" % _REP.get(rt, rt))
            node["repetition"] = "REQUIRED"
        else:
            if rt is None:
                pd.issues.append(Issue("schema", where, "repetition_type missing"))
                node["repetition"] = "REQUIRED"
            else:
                node["repetition"] = _REP.get(rt, "REQUIRED")
        ct = el.get("converted_type")
        if ct is not None:
            node["converted"] = conv_names.get(ct)
        if el.get("logicalType") is not None:
            node["logical"] = el["logicalType"]
        if el.get("field_id") is not None:
            node["field_id"] = el["field_id"]
        nc = el.get("num_children")
        has_type = el.get("type") is not None
        if is_root or (nc is not None and nc > 0) or (nc is not None and not has_type):
            if has_type:
                pd.issues.append(Issue("schema", where, "group node carries a physical type"))
            if nc is None:
                pd.issues.append(Issue("schema", where, "root without num_children"))
                nc = 0
            kids = []
            for _ in range(nc):
                k = take(depth + 1, False)
                if k is None:
                    break
                kids.append(k)
            node["children"] = kids
            if not is_root and nc == 0:
                pd.issues.append(Issue("schema", where, "group with zero children"))
        else:
            if not has_type:
                pd.issues.append(Issue("schema", where, "leaf without physical type"))
            node["physical"] = type_names.get(el.get("type"))
            if el.get("type_length") is not None:
                node["type_length"] = el["type_length"]
            if node["physical"] == "FIXED_LEN_BYTE_ARRAY" and (el.get("type_length") is None or el["type_length"] < 0):
                pd.issues.append(Issue("schema", where, "FIXED_LEN_BYTE_ARRAY without valid type_length"))
            if el.get("scale") is not None:
                node["scale"] = el["scale"]
            if el.get("precision") is not None:
                node["precision"] = el["precision"]
        return node

    root = take(0, True)
    if pos[0] != len(elements):
        pd.issues.append(Issue("schema", "schema", "%d schema elements are not reachable from the root" % (len(elements) - pos[0])))

    def walk(node, path, d, r, reps):
        for c in node.get("children", []):
            rep = c["repetition"]
            dd = d + (1 if rep in ("OPTIONAL", "REPEATED") else 0)
            rr = r + (1 if rep == "REPEATED" else 0)
            p = path + (c["name"],)
            if "children" in c:
                ann, problems = None, []
                conv = c.get("converted")
                if conv is not None and conv not in ("LIST", "MAP", "MAP_KEY_VALUE"):
                    pd.issues.append(Issue("schema", ".".join(p), "group annotated with %s" % conv))
                walk(c, p, dd, rr, reps + (rep,))
            else:
                lf = Leaf()
                lf.path = p
                lf.physical = c.get("physical")
                lf.type_length = c.get("type_length")
                lf.converted = c.get("converted")
                lf.logical = c.get("logical")
                lf.scale = c.get("scale")
                lf.precision = c.get("precision")
                lf.field_id = c.get("field_id")
                lf.max_def = dd
                lf.max_rep = rr
                lf.repetitions = reps + (rep,)
                lf.node = c
                ann, problems = _normalise_annotation(lf.physical, lf.converted, lf.logical, lf.scale, lf.precision)
                lf.annotation = ann
                for pr in problems:
                    if pr.startswith("note:"):
                        pd.notes.append("schema %s: %s" % (lf.name, pr[5:]))
                    else:
                        pd.issues.append(Issue("schema", lf.name, pr))
                pd.leaves.append(lf)

    if root is not None:
        walk(root, (), 0, 0, ())
        seen = set()
        for lf in pd.leaves:
            if lf.path in seen:
                pd.issues.append(Issue("schema", lf.name, "duplicate column path"))
            seen.add(lf.path)
    return root


# =============================================================================
# logical value conversion
# =============================================================================

_JULIAN_UNIX_EPOCH = 2440588
_NS_PER_DAY = 86400 * 10 ** 9


def int96_to_ns(raw):
    nanos = struct.unpack("<q", raw[:8])[0]
    day = struct.unpack("<i", raw[8:12])[0]
    return (day - _JULIAN_UNIX_EPOCH) * _NS_PER_DAY + nanos


def make_converter(leaf, problems):
    """Return f(physical value) -> logical value.  ``problems`` collects
    (kind, detail) pairs (deduplicated by the caller)."""
    ph = leaf.physical
    ann = leaf.annotation
    k = ann[0] if ann else None
    if ph == "INT96":
        return int96_to_ns
    if ph in ("INT32", "INT64"):
        if k == "INT":
            bits, signed = ann[1], ann[2]
            if bits in (8, 16, 32, 64):
                pbits = 32 if ph == "INT32" else 64
                if signed:
                    lo, hi = -(1 << (bits - 1)), (1 << (bits - 1)) - 1

                    def conv_signed(v):
                        if not lo <= v <= hi:
                            problems.append(("int_range", "stored value %d outside INT_%d" % (v, bits)))
                        return v
                    return conv_signed if bits < pbits else (lambda v: v)

                def conv_unsigned(v):
                    if bits < pbits:
                        if not 0 <= v < (1 << bits):
                            problems.append(("int_range", "stored value %d outside UINT_%d" % (v, bits)))
                        return v % (1 << bits)
                    return v % (1 << bits)
                return conv_unsigned
        return lambda v: v
    if ph in ("BYTE_ARRAY", "FIXED_LEN_BYTE_ARRAY"):
        if k in ("STRING", "JSON", "ENUM"):
            def conv_text(v):
                try:
                    return v.decode("utf-8")
                except UnicodeDecodeError:
                    problems.append(("utf8", "value %r is not valid UTF-8" % (v[:40],)))
                    return v
            return conv_text
        if k == "DECIMAL":
            return lambda v: int.from_bytes(v, "big", signed=True)
        return lambda v: v
    return lambda v: v


def read_statistics(chunk, leaf):
    """Decode the Statistics of a chunk into the logical value domain.

    Returns a dict with the keys present in the file among 'min', 'max',
    'min_value', 'max_value' (decoded), 'null_count', 'distinct_count'.
    Undecodable values are returned as ('undecodable', raw bytes).
    """
    st = chunk.stats if isinstance(chunk, ChunkData) else chunk
    out = {}
    if not st:
        return out
    problems = []
    conv = make_converter(leaf, problems)
    for key in ("min", "max", "min_value", "max_value"):
        if key in st:
            raw = st[key]
            try:
                out[key] = conv(decode_stat_value(leaf, raw))
            except Exception:
                out[key] = ("undecodable", raw)
    for key in ("null_count", "distinct_count"):
        if key in st:
            out[key] = st[key]
    return out


def decode_stat_value(leaf, raw):
    """PLAIN single value; BYTE_ARRAY / FLBA are the raw bytes themselves."""
    ph = leaf.physical
    if ph == "BOOLEAN":
        if len(raw) != 1:
            raise ValueError("BOOLEAN statistic of %d bytes" % len(raw))
        return bool(raw[0] & 1)
    if ph == "INT32":
        if len(raw) != 4:
            raise ValueError("INT32 statistic of %d bytes" % len(raw))
        return struct.unpack("<i", raw)[0]
    if ph == "INT64":
        if len(raw) != 8:
            raise ValueError("INT64 statistic of %d bytes" % len(raw))
        return struct.unpack("<q", raw)[0]
    if ph == "INT96":
        if len(raw) != 12:
            raise ValueError("INT96 statistic of %d bytes" % len(raw))
        return raw
    if ph == "FLOAT":
        if len(raw) != 4:
            raise ValueError("FLOAT statistic of %d bytes" % len(raw))
        return struct.unpack("<f", raw)[0]
    if ph == "DOUBLE":
        if len(raw) != 8:
            raise ValueError("DOUBLE statistic of %d bytes" % len(raw))
        return struct.unpack("<d", raw)[0]
    return bytes(raw)


def _order_key(leaf):
    """Type defined sort order -> key function, or None when undefined."""
    ph = leaf.physical
    k = leaf.annotation[0] if leaf.annotation else None
    if ph == "INT96" or k == "INTERVAL":
        return None
    if ph == "BOOLEAN":
        return lambda v: int(v)
    if ph in ("INT32", "INT64"):
        return lambda v: v           # logical value: unsigned already reinterpreted
    if ph in ("FLOAT", "DOUBLE"):
        return lambda v: v
    if k == "DECIMAL":
        return lambda v: v
    if k in ("STRING", "JSON", "ENUM"):
        return lambda v: v.encode("utf-8") if isinstance(v, str) else v
    return lambda v: v               # unsigned byte-wise


# =============================================================================
# the reader proper
# =============================================================================

_DICT_ENCODINGS = ("PLAIN_DICTIONARY", "RLE_DICTIONARY")
MAX_PAGE_VALUES = 20 * 1000 * 1000   # guard against absurd allocations on corrupt input


class _Ctx(object):
    """Per read() state."""

    def __init__(self, pd, idl):
        self.pd = pd
        self.idl = idl
        self.enc_names = idl.enum_names["Encoding"]
        self.page_type_names = idl.enum_names["PageType"]
        self.parts = {}

    def issue(self, kind, where, detail):
        self.pd.issues.append(Issue(kind, where, detail))

    def note(self, text):
        self.pd.notes.append(text)

    def tol(self, name, n=1):
        self.pd.tolerances[name] = self.pd.tolerances.get(name, 0) + n

    def thrift(self, where, issues):
        for s in issues:
            if s.startswith("note "):
                self.pd.notes.append("thrift %s: %s" % (where, s[5:]))
            else:
                self.issue("thrift", where, s)

    def merge_info_tolerances(self, info):
        for k in ("bitpacked_overdeclared", "bitpacked_truncated_padding", "rle_overdeclared",
                  "empty_run", "delta_truncated_padding"):
            if info.get(k):
                self.tol(k, info[k])


def read(data, part_loader=None):
    data = bytes(data)
    idl = _idl.load()
    pd = ParquetData()
    ctx = _Ctx(pd, idl)
    n = len(data)
    if n < 12:
        ctx.issue("magic", "file", "file of %d bytes is too short to be Parquet" % n)
        return pd
    if data[:4] != b"PAR1":
        ctx.issue("magic", "head", "first four bytes are %r" % (data[:4],))
    if data[-4:] != b"PAR1":
        ctx.issue("magic", "tail", "last four bytes are %r" % (data[-4:],))
    flen = struct.unpack("<I", data[-8:-4])[0]
    pd.footer_len = flen
    fstart = n - 8 - flen
    pd.footer_start = fstart
    if fstart < 4:
        ctx.issue("footer_len", "tail", "footer length %d does not fit in a file of %d bytes" % (flen, n))
        return pd
    try:
        meta, end, tissues = compact.decode(data[:n - 8], "FileMetaData", fstart)
    except compact.ThriftError as e:
        ctx.issue("thrift", "footer", "fatal: %s" % e)
        return pd
    ctx.thrift("footer", tissues)
    if end != n - 8:
        ctx.issue("footer_trailing", "footer", "FileMetaData ends at %d, footer ends at %d" % (end, n - 8))
    pd.meta = meta
    pd.created_by = _b2s(meta.get("created_by"))
    pd.num_rows = meta.get("num_rows")
    for kv in meta.get("key_value_metadata") or []:
        pd.kv.append((kv.get("key"), kv.get("value")))
    pd.schema_tree = _build_schema(pd, meta.get("schema") or [], idl)
    co = meta.get("column_orders")
    if co is not None and len(co) != len(pd.leaves):
        ctx.issue("schema", "column_orders", "%d column orders for %d leaf columns" % (len(co), len(pd.leaves)))
    if meta.get("version") not in (1, 2):
        ctx.note("FileMetaData.version is %r" % (meta.get("version"),))

    total_rows = 0
    extents = {}   # file key -> list of (start, end, label)
    for gi, rg in enumerate(meta.get("row_groups") or []):
        rgd = _read_row_group(ctx, data, fstart, gi, rg, part_loader, extents)
        pd.row_groups.append(rgd)
        total_rows += rg.get("num_rows") or 0
    if meta.get("num_rows") is not None and total_rows != meta["num_rows"]:
        ctx.issue("num_rows", "footer", "FileMetaData.num_rows=%d but row groups sum to %d" % (meta["num_rows"], total_rows))
    for key in sorted(extents, key=lambda k: (k is not None, k or "")):
        ext = sorted(extents[key])
        for (s1, e1, l1), (s2, e2, l2) in zip(ext, ext[1:]):
            if s2 < e1:
                ctx.issue("chunk_overlap", l2, "chunk [%d,%d) overlaps %s [%d,%d)" % (s2, e2, l1, s1, e1))
    return pd


def _part_image(ctx, path, part_loader):
    """-> (bytes, footer_start, ParquetData of the part) or None."""
    if path in ctx.parts:
        return ctx.parts[path]
    res = None
    try:
        raw = part_loader(path)
    except Exception as e:
        ctx.issue("summary_part", path, "cannot load part: %s: %s" % (type(e).__name__, e))
        raw = None
    if raw is not None:
        raw = bytes(raw)
        sub = read(raw)
        if sub.meta is None:
            ctx.issue("summary_part", path, "referenced file is not a readable Parquet file")
        else:
            res = (raw, sub.footer_start, sub)
    ctx.parts[path] = res
    return res


def _read_row_group(ctx, data, fstart, gi, rg, part_loader, extents):
    pd = ctx.pd
    rgd = RowGroupData()
    rgd.meta = rg
    rgd.num_rows = rg.get("num_rows")
    cols = rg.get("columns") or []
    where_rg = "rg%d" % gi
    if len(cols) != len(pd.leaves):
        ctx.issue("schema", where_rg, "%d column chunks for %d leaf columns" % (len(cols), len(pd.leaves)))
    sum_unc = 0
    sum_comp = 0
    have_all = True
    first_start = None
    for ci, cc in enumerate(cols):
        md = cc.get("meta_data")
        where = "%s/col%d" % (where_rg, ci)
        if md is None:
            ctx.issue("schema", where, "ColumnChunk without meta_data")
            have_all = False
            continue
        path = tuple(_b2s(p) for p in md.get("path_in_schema") or [])
        where = "%s/%s" % (where_rg, ".".join(path))
        leaf = None
        if ci < len(pd.leaves) and pd.leaves[ci].path == path:
            leaf = pd.leaves[ci]
        else:
            for lf in pd.leaves:
                if lf.path == path:
                    leaf = lf
            if leaf is None:
                ctx.issue("schema", where, "path_in_schema %r names no leaf of the schema" % (path,))
            else:
                ctx.issue("schema", where, "column chunk %d is out of schema order" % ci)
        ch = ChunkData()
        ch.meta = md
        ch.column = cc
        ch.leaf = leaf
        ch.stats = md.get("statistics")
        fp = cc.get("file_path")
        ch.file_path = _b2s(fp) if fp is not None else None
        if path in rgd.chunks:
            ctx.issue("schema", where, "duplicate column chunk for this path")
        rgd.chunks[path] = ch
        sum_unc += md.get("total_uncompressed_size") or 0
        sum_comp += md.get("total_compressed_size") or 0
        if leaf is None:
            continue
        if leaf.physical is not None and ctx.idl.enum_names["Type"].get(md.get("type")) != leaf.physical:
            ctx.issue("schema", where, "ColumnMetaData.type %r differs from schema type %s" % (md.get("type"), leaf.physical))
        src = data
        limit = fstart
        fkey = None
        if ch.file_path is not None:
            fkey = ch.file_path
            if part_loader is None:
                src = None
            else:
                img = _part_image(ctx, ch.file_path, part_loader)
                if img is None:
                    src = None
                else:
                    src, limit, sub = img
                    _check_summary_chunk(ctx, where, cc, sub)
        if src is None:
            continue
        _read_chunk(ctx, src, limit, where, ch, leaf, rgd, extents.setdefault(fkey, []))
        if first_start is None:
            first_start = ch.start
    if have_all and rg.get("total_byte_size") is not None and rg["total_byte_size"] != sum_unc:
        ctx.note("%s: total_byte_size=%d, column total_uncompressed_size sum=%d" % (where_rg, rg["total_byte_size"], sum_unc))
    if have_all and rg.get("total_compressed_size") is not None and rg["total_compressed_size"] != sum_comp:
        ctx.note("%s: total_compressed_size=%d, column sum=%d" % (where_rg, rg["total_compressed_size"], sum_comp))
    if rg.get("file_offset") is not None and first_start is not None and rg["file_offset"] != first_start:
        ctx.note("%s: file_offset=%d, first chunk starts at %d" % (where_rg, rg["file_offset"], first_start))
    return rgd


def _check_summary_chunk(ctx, where, cc, sub):
    """A chunk listed in a summary file must equal a chunk of the part's own footer."""
    md = cc.get("meta_data")
    for rg in sub.meta.get("row_groups") or []:
        for other in rg.get("columns") or []:
            omd = other.get("meta_data")
            if omd is None:
                continue
            if omd.get("path_in_schema") == md.get("path_in_schema") and omd.get("data_page_offset") == md.get("data_page_offset"):
                if omd != md:
                    diff = sorted(k for k in set(omd) | set(md) if omd.get(k) != md.get(k))
                    ctx.issue("summary_mismatch", where, "ColumnMetaData differs from the part's own footer in %s" % ", ".join(diff))
                if rg.get("num_rows") is None:
                    return
                return
    ctx.issue("summary_mismatch", where, "no column chunk with this path and data_page_offset in the referenced file")


# ----------------------------------------------------------------------------- chunk

def _read_chunk(ctx, src, limit, where, ch, leaf, rgd, extent_list):
    md = ch.meta
    idl = ctx.idl
    codec_id = md.get("codec")
    codec = codecs.CODEC_NAMES.get(codec_id)
    ch.codec = codec
    can_decompress = True
    if codec is None:
        ctx.issue("codec", where, "codec id %r is not in CompressionCodec" % (codec_id,))
        can_decompress = False
    elif codec not in codecs.SUPPORTED:
        ctx.issue("unsupported", where, "codec %s cannot be decompressed by refpq" % codec)
        can_decompress = False
    dpo = md.get("data_page_offset")
    dico = md.get("dictionary_page_offset")
    tcs = md.get("total_compressed_size")
    if dpo is None or tcs is None:
        return
    has_dico = dico is not None and dico > 0
    if dico is not None and dico <= 0:
        ctx.note("%s: dictionary_page_offset=%d treated as absent" % (where, dico))
    if has_dico and dico >= dpo:
        ctx.issue("dict_offset", where, "dictionary_page_offset %d is not below data_page_offset %d" % (dico, dpo))
    start = dico if has_dico else dpo
    if has_dico and dico >= dpo:
        start = min(dico, dpo)
    ch.start = start
    end = start + tcs
    if start < 4 or end > limit or tcs < 0:
        ctx.issue("chunk_overlap", where, "chunk [%d,%d) is not inside the data area [4,%d)" % (start, end, limit))
    extent_list.append((start, end, where))
    ipo = md.get("index_page_offset")
    if ipo is not None and ipo != 0:
        ctx.note("%s: index_page_offset=%d" % (where, ipo))

    need_values = md.get("num_values")
    pos = start
    sum_unc = 0
    values_seen = 0
    first_data_offset = None
    dictionary = None
    dict_phys = None
    used_encodings = set()
    level_encodings = set()
    page_counts = {}
    all_defs = []
    all_reps = []
    phys_values = []
    decode_ok = True
    tiling_reported = False
    dict_at_dpo = False
    problems = []
    conv = make_converter(leaf, problems)
    pi = 0
    hard_limit = len(src)
    while pos < end or (need_values is not None and values_seen < need_values and pos < limit):
        if pos >= end and not tiling_reported:
            ctx.issue("page_tiling", where, "pages continue past start+total_compressed_size=%d (values seen %d of %d)" % (end, values_seen, need_values))
            tiling_reported = True
        pwhere = "%s/page%d@%d" % (where, pi, pos)
        if pos < 0 or pos >= hard_limit:
            ctx.issue("page_tiling", pwhere, "page offset outside the file")
            decode_ok = False
            break
        try:
            hdr, hend, tissues = compact.decode(src, "PageHeader", pos)
        except compact.ThriftError as e:
            ctx.issue("thrift", pwhere, "fatal: %s" % e)
            decode_ok = False
            break
        ctx.thrift(pwhere, tissues)
        hlen = hend - pos
        csize = hdr.get("compressed_page_size")
        usize = hdr.get("uncompressed_page_size")
        if csize is None or usize is None or csize < 0 or usize < 0:
            ctx.issue("page_tiling", pwhere, "page sizes missing or negative (%r, %r)" % (csize, usize))
            decode_ok = False
            break
        body_start = hend
        body_end = hend + csize
        if body_end > end and not tiling_reported:
            ctx.issue("page_tiling", pwhere, "page body ends at %d, beyond start+total_compressed_size=%d" % (body_end, end))
            tiling_reported = True
        if body_end > hard_limit:
            ctx.issue("page_tiling", pwhere, "page body ends at %d, beyond the end of the file" % body_end)
            decode_ok = False
            break
        body = src[body_start:body_end]
        sum_unc += hlen + usize
        page = PageData()
        page.header = hdr
        page.offset = pos
        page.header_len = hlen
        page.compressed = csize
        page.uncompressed = usize
        ptype = hdr.get("type")
        ptname = ctx.page_type_names.get(ptype)
        if hdr.get("crc") is not None:
            crc = zlib.crc32(body) & 0xFFFFFFFF
            if crc != (hdr["crc"] & 0xFFFFFFFF):
                ctx.issue("crc", pwhere, "crc field %d, computed %d" % (hdr["crc"] & 0xFFFFFFFF, crc))
        present = [k for k in ("data_page_header", "index_page_header", "dictionary_page_header", "data_page_header_v2") if k in hdr]
        expected_hdr = {"DATA_PAGE": "data_page_header", "INDEX_PAGE": "index_page_header",
                        "DICTIONARY_PAGE": "dictionary_page_header", "DATA_PAGE_V2": "data_page_header_v2"}.get(ptname)
        if expected_hdr is None:
            ctx.issue("page_type", pwhere, "page type %r" % (ptype,))
        elif expected_hdr not in hdr:
            ctx.issue("page_type", pwhere, "page of type %s without %s" % (ptname, expected_hdr))
        elif present != [expected_hdr]:
            ctx.note("%s: page of type %s also carries %s" % (pwhere, ptname, [p for p in present if p != expected_hdr]))

        if ptname == "DICTIONARY_PAGE" and "dictionary_page_header" in hdr:
            page.kind = "dict"
            dh = hdr["dictionary_page_header"]
            page.num_values = dh.get("num_values")
            page.encoding = ctx.enc_names.get(dh.get("encoding"))
            used_encodings.add(dh.get("encoding"))
            key = (ptype, dh.get("encoding"))
            page_counts[key] = page_counts.get(key, 0) + 1
            if pi != 0:
                ctx.issue("dict_position", pwhere, "dictionary page is not the first page of the chunk")
            if dictionary is not None:
                ctx.issue("dict_position", pwhere, "second dictionary page in one chunk")
            if has_dico and pos != dico:
                ctx.issue("dict_offset", pwhere, "dictionary page found at %d, dictionary_page_offset=%d" % (pos, dico))
            if not has_dico and pos == dpo:
                # old parquet-mr: no dictionary_page_offset, data_page_offset names the
                # dictionary page.  Universally accepted by readers -> tolerance.
                ctx.tol("dict_page_at_data_offset")
                dict_at_dpo = True
            if can_decompress:
                try:
                    raw = codecs.decompress(codec, body)
                    if len(raw) != usize:
                        ctx.issue("uncompressed_size", pwhere, "dictionary page decompresses to %d bytes, header says %d" % (len(raw), usize))
                    if page.encoding not in ("PLAIN", "PLAIN_DICTIONARY"):
                        raise enc.DecodeError("dictionary page encoding %s" % page.encoding)
                    nv = page.num_values or 0
                    if nv < 0:
                        raise enc.DecodeError("negative dictionary size")
                    vals, p = enc.plain_decode(leaf.physical, raw, 0, len(raw), nv, leaf.type_length, raw_float=True)
                    if p != len(raw):
                        ctx.tol("dict_trailing_bytes")
                    dict_phys = vals
                    dictionary = vals
                except (codecs.CodecError, enc.DecodeError, ValueError) as e:
                    ctx.issue("decode", pwhere, "dictionary page: %s: %s" % (type(e).__name__, e))
                    decode_ok = False
                    dictionary = None
            else:
                decode_ok = False
        elif ptname in ("DATA_PAGE", "DATA_PAGE_V2") and expected_hdr in hdr:
            v2 = ptname == "DATA_PAGE_V2"
            page.kind = "v2" if v2 else "v1"
            dh = hdr[expected_hdr]
            page.num_values = dh.get("num_values")
            page.encoding = ctx.enc_names.get(dh.get("encoding"))
            used_encodings.add(dh.get("encoding"))
            key = (ptype, dh.get("encoding"))
            page_counts[key] = page_counts.get(key, 0) + 1
            if first_data_offset is None:
                first_data_offset = pos
            nv = page.num_values if page.num_values is not None else 0
            if nv < 0:
                ctx.issue("num_values", pwhere, "negative num_values %d" % nv)
                nv = 0
            values_seen += nv
            if page.encoding is None:
                ctx.issue("decode", pwhere, "encoding id %r is not in the Encoding enum" % (dh.get("encoding"),))
            if nv > MAX_PAGE_VALUES:
                ctx.issue("unsupported", pwhere, "page declares %d values; refpq refuses to decode more than %d per page" % (nv, MAX_PAGE_VALUES))
                decode_ok = False
            elif can_decompress:
                try:
                    _decode_data_page(ctx, pwhere, page, body, v2, dh, leaf, codec, dict_phys, level_encodings, usize)
                    all_defs.extend(page.def_levels if page.def_levels is not None else [])
                    all_reps.extend(page.rep_levels if page.rep_levels is not None else [])
                    phys_values.extend(page.values)
                except (codecs.CodecError, enc.DecodeError, ValueError, IndexError, struct.error) as e:
                    ctx.issue("decode", pwhere, "%s: %s" % (type(e).__name__, e))
                    decode_ok = False
            else:
                decode_ok = False
        elif ptname == "INDEX_PAGE":
            page.kind = "index"
            key = (ptype, None)
        else:
            page.kind = "unknown"
            decode_ok = False
        ch.pages.append(page)
        pos = body_end
        pi += 1
        if pi > 1000000:
            break
    if pos != end and not tiling_reported:
        ctx.issue("page_tiling", where, "page walk ended at %d, start+total_compressed_size=%d" % (pos, end))
    if pos != end or tiling_reported:
        ctx.issue("compressed_size", where, "total_compressed_size=%d but pages occupy %d bytes" % (tcs, pos - start))
    tus = md.get("total_uncompressed_size")
    if tus is not None and tus != sum_unc:
        ctx.issue("uncompressed_size", where, "total_uncompressed_size=%d but headers+uncompressed pages sum to %d" % (tus, sum_unc))
    if first_data_offset is None:
        if need_values:
            ctx.issue("data_offset", where, "no data page found")
    elif first_data_offset != dpo and not dict_at_dpo:
        ctx.issue("data_offset", where, "first data page header is at %d, data_page_offset=%d" % (first_data_offset, dpo))
    if need_values is not None and values_seen != need_values:
        ctx.issue("num_values", where, "ColumnMetaData.num_values=%d but data pages hold %d" % (need_values, values_seen))

    # encodings list
    listed = md.get("encodings") or []
    for e in listed:
        if e not in ctx.enc_names:
            ctx.issue("encodings_list", where, "encodings contains unknown id %r" % (e,))
    missing = sorted(e for e in used_encodings if e is not None and e not in listed)
    if missing:
        ctx.issue("encodings_list", where, "encodings used but not listed: %s (listed: %s)" % (
            [ctx.enc_names.get(e, e) for e in missing], [ctx.enc_names.get(e, e) for e in listed]))
    missing = sorted(e for e in level_encodings if e is not None and e not in listed and e not in used_encodings)
    if missing:
        # v1 pages name their level encodings explicitly; parquet-mr and Arrow list them,
        # some writers do not.  Kept apart from 'encodings_list' so callers can tell.
        ctx.issue("encodings_list_levels", where, "level encodings used by v1 pages but not listed: %s (listed: %s)" % (
            [ctx.enc_names.get(e, e) for e in missing], [ctx.enc_names.get(e, e) for e in listed]))
    es = md.get("encoding_stats")
    if es is not None:
        got = {}
        for item in es:
            k = (item.get("page_type"), item.get("encoding"))
            got[k] = got.get(k, 0) + (item.get("count") or 0)
        found = dict((k, v) for k, v in page_counts.items())
        if got != found:
            def fmt(d):
                return sorted(((ctx.page_type_names.get(k[0], k[0]), ctx.enc_names.get(k[1], k[1]), v) for k, v in d.items()), key=repr)
            ctx.issue("encoding_stats", where, "encoding_stats %s, pages found %s" % (fmt(got), fmt(found)))

    ch.decoded = decode_ok
    is_float = leaf.physical in ("FLOAT", "DOUBLE")
    ffmt = "<f" if leaf.physical == "FLOAT" else "<d"
    if dictionary is not None and decode_ok:
        if is_float:
            dictionary = [struct.unpack(ffmt, v)[0] for v in dictionary]
        ch.dictionary = [conv(v) for v in dictionary]
    if not decode_ok:
        ch.slots = None
        return
    # ---- chunk level value checks
    ch.def_levels = all_defs if leaf.max_def > 0 else None
    ch.rep_levels = all_reps if leaf.max_rep > 0 else None
    if is_float:
        ifmt = "<I" if leaf.physical == "FLOAT" else "<Q"
        ch.float_bits = [struct.unpack(ifmt, v)[0] for v in phys_values]
        phys_values = [struct.unpack(ffmt, v)[0] for v in phys_values]
    ch.values = [conv(v) for v in phys_values]
    k = 0
    for pg in ch.pages:
        if pg.kind in ("v1", "v2") and pg.values is not None:
            m = len(pg.values)
            pg.values = ch.values[k:k + m]
            k += m
    seen = set()
    for kind, detail in problems:
        if (kind, detail) not in seen and len(seen) < 20:
            seen.add((kind, detail))
            ctx.issue(kind, where, detail)
    nulls = 0
    if leaf.max_def > 0:
        nulls = sum(1 for d in all_defs if d < leaf.max_def)
    if leaf.max_rep == 0:
        if rgd.num_rows is not None and values_seen != rgd.num_rows:
            ctx.issue("num_rows", where, "flat column holds %d values, RowGroup.num_rows=%d" % (values_seen, rgd.num_rows))
        if leaf.max_def > 0:
            it = iter(ch.values)
            ch.slots = [next(it) if d == leaf.max_def else NULL for d in all_defs]
        else:
            ch.slots = list(ch.values)
    else:
        nrows = sum(1 for r in all_reps if r == 0)
        if all_reps and all_reps[0] != 0:
            ctx.issue("level_framing", where, "first repetition level of the chunk is %d" % all_reps[0])
        if rgd.num_rows is not None and nrows != rgd.num_rows:
            ctx.issue("num_rows", where, "repeated column holds %d rows, RowGroup.num_rows=%d" % (nrows, rgd.num_rows))
    st = md.get("statistics")
    if st:
        ok_counts = {nulls}
        if leaf.max_rep:
            # repeated columns: writers count either every level entry without a value or null values only
            ok_counts.add(sum(1 for d in all_defs if d == leaf.max_def - 1) if (leaf.repetitions and leaf.repetitions[-1] == "OPTIONAL") else 0)
        if st.get("null_count") is not None and st["null_count"] not in ok_counts:
            ctx.issue("null_count", where, "statistics.null_count=%d, actual nulls %d" % (st["null_count"], nulls))
        _check_stats(ctx, where, st, leaf, ch)
    _check_page_indexes(ctx, src, where, ch)


def _check_stats(ctx, where, st, leaf, ch):
    problems = []
    conv = make_converter(leaf, problems)
    decoded = {}
    for key in ("min", "max", "min_value", "max_value"):
        if key in st:
            try:
                decoded[key] = conv(decode_stat_value(leaf, st[key]))
            except Exception as e:
                ctx.issue("stats_decode", where, "statistics.%s: %s" % (key, e))
    for kind, detail in problems:
        if kind == "utf8":
            # truncated strings are legal for min_value / max_value
            ctx.note("%s: statistics value is not valid UTF-8" % where)
    keyf = _order_key(leaf)
    if keyf is None:
        return
    vals = ch.values
    if leaf.physical in ("FLOAT", "DOUBLE"):
        vals = [v for v in vals if v == v]
    if not vals:
        return
    try:
        keys = [keyf(v) for v in vals]
    except Exception:
        return
    lo, hi = min(keys), max(keys)
    signed_ok = True
    if leaf.physical in ("BYTE_ARRAY", "FIXED_LEN_BYTE_ARRAY") or (leaf.annotation and leaf.annotation[0] == "INT" and not leaf.annotation[2]):
        signed_ok = False   # legacy min/max had no defined order for these
    for lo_key, hi_key, legacy in (("min_value", "max_value", False), ("min", "max", True)):
        if legacy and not signed_ok:
            continue
        try:
            if lo_key in decoded:
                k = keyf(decoded[lo_key])
                if k == k and k > lo:
                    ctx.issue("stats_bounds", where, "statistics.%s=%r exceeds the smallest value %r" % (lo_key, decoded[lo_key], vals[keys.index(lo)]))
            if hi_key in decoded:
                k = keyf(decoded[hi_key])
                if k == k and k < hi:
                    ctx.issue("stats_bounds", where, "statistics.%s=%r is below the largest value %r" % (hi_key, decoded[hi_key], vals[keys.index(hi)]))
        except TypeError:
            pass


def _check_page_indexes(ctx, src, where, ch):
    cc = ch.column
    oio, oil = cc.get("offset_index_offset"), cc.get("offset_index_length")
    if oio is not None and oil is not None and oio > 0:
        try:
            oi, end, iss = compact.decode(src[:oio + oil], "OffsetIndex", oio)
            ctx.thrift(where + "/offset_index", iss)
            if end != oio + oil:
                ctx.issue("page_index", where, "OffsetIndex occupies %d bytes, offset_index_length=%d" % (end - oio, oil))
            locs = oi.get("page_locations") or []
            data_pages = [p for p in ch.pages if p.kind in ("v1", "v2")]
            if len(locs) != len(data_pages):
                ctx.issue("page_index", where, "OffsetIndex lists %d pages, chunk has %d data pages" % (len(locs), len(data_pages)))
            else:
                for loc, p in zip(locs, data_pages):
                    if loc.get("offset") != p.offset or loc.get("compressed_page_size") != p.header_len + p.compressed:
                        ctx.issue("page_index", where, "PageLocation %r does not match page at %d (+%d)" % (loc, p.offset, p.header_len + p.compressed))
                        break
        except compact.ThriftError as e:
            ctx.issue("thrift", where + "/offset_index", "fatal: %s" % e)
    cio, cil = cc.get("column_index_offset"), cc.get("column_index_length")
    if cio is not None and cil is not None and cio > 0:
        try:
            ci, end, iss = compact.decode(src[:cio + cil], "ColumnIndex", cio)
            ctx.thrift(where + "/column_index", iss)
            if end != cio + cil:
                ctx.issue("page_index", where, "ColumnIndex occupies %d bytes, column_index_length=%d" % (end - cio, cil))
        except compact.ThriftError as e:
            ctx.issue("thrift", where + "/column_index", "fatal: %s" % e)


# ----------------------------------------------------------------------------- data pages

def _decode_levels_v1(ctx, pwhere, raw, p, encoding_name, max_level, count, what, page):
    """v1 level section -> (levels, new p)."""
    width = enc.bit_width(max_level)
    if encoding_name == "RLE":
        if p + 4 > len(raw):
            ctx.issue("level_framing", pwhere, "%s levels: no room for the 4-byte length" % what)
            raise enc.DecodeError("level length prefix crosses page end")
        ln = struct.unpack_from("<I", raw, p)[0]
        p += 4
        if p + ln > len(raw):
            ctx.issue("level_framing", pwhere, "%s levels: length %d exceeds the %d bytes left in the page" % (what, ln, len(raw) - p))
            raise enc.DecodeError("level section crosses page end")
        info = {}
        try:
            levels, q = enc.decode_hybrid(raw, p, p + ln, width, count, info)
        except enc.DecodeError as e:
            ctx.issue("level_framing", pwhere, "%s levels do not decode inside their %d bytes: %s" % (what, ln, e))
            raise
        ctx.merge_info_tolerances(info)
        page.info[what + "_runs"] = info.get("runs")
        if q != p + ln:
            ctx.tol("level_section_slack")
        return levels, p + ln
    if encoding_name == "BIT_PACKED":
        levels, q = enc.decode_bitpacked_legacy(raw, p, len(raw), width, count)
        return levels, q
    ctx.issue("level_framing", pwhere, "%s level encoding %r is neither RLE nor BIT_PACKED" % (what, encoding_name))
    raise enc.DecodeError("bad level encoding")


def _check_levels(ctx, pwhere, levels, max_level, what):
    for v in levels:
        if v > max_level:
            ctx.issue("level_framing", pwhere, "%s level %d exceeds the maximum %d" % (what, v, max_level))
            raise enc.DecodeError("level out of range")


def _decode_data_page(ctx, pwhere, page, body, v2, dh, leaf, codec, dict_phys, level_encodings, usize):
    enc_ids = ctx.idl.enums["Encoding"]
    nv = page.num_values or 0
    max_def, max_rep = leaf.max_def, leaf.max_rep
    reps = None
    defs = None
    if not v2:
        raw = codecs.decompress(codec, body)
        if len(raw) != usize:
            ctx.issue("uncompressed_size", pwhere, "page decompresses to %d bytes, header says %d" % (len(raw), usize))
        p = 0
        rle_name = ctx.enc_names.get(dh.get("repetition_level_encoding"))
        dle_name = ctx.enc_names.get(dh.get("definition_level_encoding"))
        if max_rep > 0:
            level_encodings.add(dh.get("repetition_level_encoding"))
            reps, p = _decode_levels_v1(ctx, pwhere, raw, p, rle_name, max_rep, nv, "repetition", page)
            _check_levels(ctx, pwhere, reps, max_rep, "repetition")
        if max_def > 0:
            level_encodings.add(dh.get("definition_level_encoding"))
            defs, p = _decode_levels_v1(ctx, pwhere, raw, p, dle_name, max_def, nv, "definition", page)
            _check_levels(ctx, pwhere, defs, max_def, "definition")
        vbuf = raw
        vpos = p
    else:
        rl = dh.get("repetition_levels_byte_length") or 0
        dl = dh.get("definition_levels_byte_length") or 0
        if rl < 0 or dl < 0 or rl + dl > len(body):
            ctx.issue("level_framing", pwhere, "level byte lengths %d+%d exceed the page body of %d bytes" % (rl, dl, len(body)))
            raise enc.DecodeError("v2 level lengths")
        if max_rep == 0 and rl != 0:
            ctx.issue("level_framing", pwhere, "repetition_levels_byte_length=%d on a non-repeated column" % rl)
        if max_def == 0 and dl != 0:
            ctx.issue("level_framing", pwhere, "definition_levels_byte_length=%d on a required column" % dl)
        if max_rep > 0:
            info = {}
            try:
                reps, q = enc.decode_hybrid(body, 0, rl, enc.bit_width(max_rep), nv, info)
            except enc.DecodeError as e:
                ctx.issue("level_framing", pwhere, "repetition levels do not decode inside repetition_levels_byte_length=%d: %s" % (rl, e))
                raise
            ctx.merge_info_tolerances(info)
            page.info["repetition_runs"] = info.get("runs")
            if q != rl:
                ctx.tol("level_section_slack")
            _check_levels(ctx, pwhere, reps, max_rep, "repetition")
        if max_def > 0:
            info = {}
            try:
                defs, q = enc.decode_hybrid(body, rl, rl + dl, enc.bit_width(max_def), nv, info)
            except enc.DecodeError as e:
                ctx.issue("level_framing", pwhere, "definition levels do not decode inside definition_levels_byte_length=%d: %s" % (dl, e))
                raise
            ctx.merge_info_tolerances(info)
            page.info["definition_runs"] = info.get("runs")
            if q != rl + dl:
                ctx.tol("level_section_slack")
            _check_levels(ctx, pwhere, defs, max_def, "definition")
        rest = body[rl + dl:]
        is_comp = dh.get("is_compressed")
        compressed = (is_comp is None or is_comp) and codec != "UNCOMPRESSED"
        page.info["values_compressed"] = compressed
        if compressed:
            if len(rest) == 0 and usize - rl - dl == 0:
                vbuf = b""
            else:
                vbuf = codecs.decompress(codec, rest)
        else:
            vbuf = rest
        if len(vbuf) + rl + dl != usize:
            ctx.issue("uncompressed_size", pwhere, "levels %d+%d plus values %d bytes = %d, uncompressed_page_size=%d" % (
                rl, dl, len(vbuf), len(vbuf) + rl + dl, usize))
        vpos = 0
    page.def_levels = defs
    page.rep_levels = reps
    nulls = sum(1 for d in defs if d < max_def) if defs is not None else 0
    page.num_nulls = nulls
    n_nonnull = nv - nulls
    if v2:
        hn = dh.get("num_nulls")
        if hn is not None and hn != nulls:
            ctx.issue("null_count", pwhere, "DataPageHeaderV2.num_nulls=%d, definition levels give %d" % (hn, nulls))
        rows = sum(1 for r in reps if r == 0) if reps is not None else nv
        hr = dh.get("num_rows")
        if hr is not None and hr != rows:
            ctx.issue("num_rows", pwhere, "DataPageHeaderV2.num_rows=%d, page holds %d rows" % (hr, rows))
        if reps and reps[0] != 0:
            ctx.issue("level_framing", pwhere, "v2 page does not start at a row boundary (first repetition level %d)" % reps[0])
    vend = len(vbuf)
    ename = page.encoding
    ph = leaf.physical
    info = {}
    if ename == "PLAIN":
        vals, q = enc.plain_decode(ph, vbuf, vpos, vend, n_nonnull, leaf.type_length, raw_float=True)
    elif ename in _DICT_ENCODINGS:
        if dict_phys is None:
            raise enc.DecodeError("dictionary encoded page without a (decodable) dictionary page")
        if n_nonnull == 0 and vpos >= vend:
            vals, q = [], vpos
        else:
            if vpos >= vend:
                raise enc.DecodeError("no room for the index bit width byte")
            width = vbuf[vpos]
            page.info["index_bit_width"] = width
            if width > 32:
                ctx.issue("decode", pwhere, "dictionary index bit width %d exceeds 32" % width)
                raise enc.DecodeError("index bit width %d" % width)
            idx, q = enc.decode_hybrid(vbuf, vpos + 1, vend, width, n_nonnull, info)
            page.info["index_runs"] = info.get("runs")
            nd = len(dict_phys)
            vals = []
            for i in idx:
                if i >= nd:
                    ctx.issue("index_out_of_range", pwhere, "dictionary index %d with a dictionary of %d entries" % (i, nd))
                    raise enc.DecodeError("dictionary index out of range")
                vals.append(dict_phys[i])
    elif ename == "RLE":
        if ph != "BOOLEAN":
            raise enc.DecodeError("RLE value encoding on %s" % ph)
        if n_nonnull == 0 and vpos >= vend:
            vals, q = [], vpos
        else:
            if vpos + 4 > vend:
                raise enc.DecodeError("RLE boolean values: no room for the 4-byte length")
            ln = struct.unpack_from("<I", vbuf, vpos)[0]
            if vpos + 4 + ln > vend:
                raise enc.DecodeError("RLE boolean values: length %d exceeds the %d bytes left" % (ln, vend - vpos - 4))
            bits, q = enc.decode_hybrid(vbuf, vpos + 4, vpos + 4 + ln, 1, n_nonnull, info)
            page.info["value_runs"] = info.get("runs")
            vals = [bool(b) for b in bits]
            q = vpos + 4 + ln
    elif ename == "DELTA_BINARY_PACKED":
        if ph not in ("INT32", "INT64"):
            raise enc.DecodeError("DELTA_BINARY_PACKED on %s" % ph)
        vals, q = enc.decode_delta(vbuf, vpos, ph == "INT64", vend, info, max_count=n_nonnull)
        page.info["delta"] = info
        if len(vals) != n_nonnull:
            raise enc.DecodeError("delta stream holds %d values, page needs %d" % (len(vals), n_nonnull))
    elif ename == "DELTA_LENGTH_BYTE_ARRAY":
        if ph != "BYTE_ARRAY":
            raise enc.DecodeError("DELTA_LENGTH_BYTE_ARRAY on %s" % ph)
        vals, q = enc.decode_delta_length_byte_array(vbuf, vpos, vend, n_nonnull, info)
    elif ename == "DELTA_BYTE_ARRAY":
        if ph not in ("BYTE_ARRAY", "FIXED_LEN_BYTE_ARRAY"):
            raise enc.DecodeError("DELTA_BYTE_ARRAY on %s" % ph)
        vals, q = enc.decode_delta_byte_array(vbuf, vpos, vend, n_nonnull, info)
        if ph == "FIXED_LEN_BYTE_ARRAY":
            for v in vals:
                if len(v) != leaf.type_length:
                    raise enc.DecodeError("DELTA_BYTE_ARRAY value of length %d in FIXED_LEN_BYTE_ARRAY(%r)" % (len(v), leaf.type_length))
    elif ename == "BYTE_STREAM_SPLIT":
        widths = {"FLOAT": 4, "DOUBLE": 8, "INT32": 4, "INT64": 8, "FIXED_LEN_BYTE_ARRAY": leaf.type_length}
        if ph not in widths or widths[ph] is None:
            raise enc.DecodeError("BYTE_STREAM_SPLIT on %s" % ph)
        rawvals, q = enc.decode_byte_stream_split(vbuf, vpos, vend, n_nonnull, widths[ph])
        if ph in ("INT32", "INT64"):
            vals = [enc.raw_to_physical(ph, v) for v in rawvals]
        else:
            vals = rawvals
    else:
        raise enc.DecodeError("value encoding %r cannot be used for data pages" % (ename,))
    for v in info.get("violations") or []:
        ctx.issue("decode", pwhere, "DELTA_BINARY_PACKED header: %s" % v)
    ctx.merge_info_tolerances(info)
    if q < vend:
        if v2:
            ctx.tol("v2_trailing_bytes")
            page.info["trailing_bytes"] = vend - q
        else:
            ctx.tol("v1_trailing_bytes")
            page.info["trailing_bytes"] = vend - q
    page.values = vals
