"""Self validation of refpq.  Run from /verif:

    /venv/bin/python -m vf.refpq.selftest            # exit 0 = ok, 1 = failure
    /venv/bin/python -m vf.refpq.selftest --fastparquet   # + optional cross check

(a) third-party fixtures decode with exactly the documented issues/tolerances
    and reproduce their known contents;
(b) writer -> reader round trips over pseudo random plans (random.Random(0));
(c) own snappy / lz4 decoders agree with cramjam;
(d) compact protocol: encode -> decode round trip for every IDL struct, and the
    fixtures' footers decode without non-note issues;
(e) planted violations (one per check of the reader) are reported under the
    expected issue kind.
Nothing here imports fastparquet, except ``optional_fastparquet_crosscheck``.
"""
import hashlib
import os
import random
import struct
import sys
import time

from . import compact, codecs, encodings as enc, idl as _idl
from . import reader, writer, dremel, randplan
from .reader import NULL

FIXTURES = os.path.join(os.path.dirname(os.path.abspath(__file__)), "fixtures")


class Failures(object):
    def __init__(self):
        self.items = []
        self.checks = 0

    def check(self, cond, msg):
        self.checks += 1
        if not cond:
            self.items.append(msg)
            if len(self.items) <= 40:
                print("FAIL:", msg)
        return cond


def same(a, b):
    """Deep equality where floats compare by bit pattern class (NaN == NaN,
    -0.0 != 0.0)."""
    if isinstance(a, float) and isinstance(b, float):
        if a != a or b != b:
            return a != a and b != b
        return struct.pack("<d", a) == struct.pack("<d", b)
    if isinstance(a, (list, tuple)) and isinstance(b, (list, tuple)):
        return len(a) == len(b) and all(same(x, y) for x, y in zip(a, b))
    if isinstance(a, dict) and isinstance(b, dict):
        return set(a) == set(b) and all(same(a[k], b[k]) for k in a)
    if type(a) is not type(b):
        return False
    return a == b


def fixture(name):
    with open(os.path.join(FIXTURES, name), "rb") as f:
        return f.read()


# =============================================================================
# (a) fixtures
# =============================================================================

# name -> (allowed issue kinds (exact set), allowed tolerance names, rows)
FIXTURE_EXPECT = {
    "nation.impala.parquet": (set(), {"bitpacked_truncated_padding"}, 25),
    "snappy-nation.impala.parquet": (set(), {"bitpacked_truncated_padding"}, 25),
    "gzip-nation.impala.parquet": (set(), {"bitpacked_truncated_padding"}, 25),
    # ancient parquet-mr: empty `encodings`, dictionary page header not counted
    # in the chunk sizes - genuine non-conformances of these two files
    "nation.dict.parquet": ({"encodings_list", "encodings_list_levels", "page_tiling", "compressed_size", "uncompressed_size"},
                            {"dict_page_at_data_offset"}, 25),
    "nation.plain.parquet": ({"encodings_list", "encodings_list_levels"}, set(), 25),
    "datapage_v2.snappy.parquet": (set(), {"dict_page_at_data_offset"}, 5),
    "map_array.parq": (set(), {"dict_page_at_data_offset"}, 125),
    "nested.parq": (set(), {"dict_page_at_data_offset"}, 10),
    "nested1.parquet": (set(), {"dict_page_at_data_offset"}, 100),
    "decimals.parquet": (set(), set(), 10),
    "mr_times.parq": (set(), {"dict_page_at_data_offset"}, 10),
    "test-null.parquet": (set(), set(), 2),
    "test-null-dictionary.parquet": (set(), {"dict_page_at_data_offset"}, 7),
    "test-converted-type-null.parquet": (set(), set(), 2),
    "test-timezone.parquet": (set(), set(), 2),
    "foo.parquet": (set(), set(), 1),
    "test-map-last-row-split.parquet": (set(), {"dict_page_at_data_offset"}, 2428),
    "test.parquet": (set(), set(), 1000),
    "metas.parq": (set(), set(), 2),
    # parquet-rs 0.3.0: FileMetaData.num_rows = 0 with 6 rows stored; RLE levels not listed
    "repeated_no_annotation.parquet": ({"num_rows", "encodings_list_levels"}, set(), 0),
}

# sha256(repr(table))[:16] established once by comparing every cell with what
# fastparquet returns for the same file (see README)
FIXTURE_DIGEST = {
    "map_array.parq": "aa090105c03d27d8",
    "test-map-last-row-split.parquet": "e89a554bdc86aa44",
    "foo.parquet": "d72c2246fa87af96",
    "nested1.parquet": "77836a5ca4a94172",
    "test.parquet": "de015a459859fe80",
}


def check_fixtures(F):
    tables = {}
    for name in sorted(FIXTURE_EXPECT):
        kinds, tols, nrows = FIXTURE_EXPECT[name]
        pd = reader.read(fixture(name))
        got_kinds = set(pd.issue_kinds())
        F.check(got_kinds == kinds, "%s: issue kinds %s, expected %s: %s" % (name, sorted(got_kinds), sorted(kinds), pd.issues[:4]))
        F.check(set(pd.tolerances) <= tols, "%s: tolerances %s not within %s" % (name, pd.tolerances, sorted(tols)))
        F.check(pd.num_rows == nrows, "%s: num_rows %r != %r" % (name, pd.num_rows, nrows))
        try:
            tables[name] = pd.table()
        except Exception as e:
            F.check(False, "%s: table() raised %s: %s" % (name, type(e).__name__, e))
            tables[name] = {}
        if name in FIXTURE_DIGEST:
            dg = hashlib.sha256(repr(tables[name]).encode()).hexdigest()[:16]
            F.check(dg == FIXTURE_DIGEST[name], "%s: content digest %s != %s" % (name, dg, FIXTURE_DIGEST[name]))
    # nation.* against nation.csv
    rows = []
    for line in fixture("nation.csv").decode("utf-8").splitlines():
        parts = line.split("|")
        rows.append((int(parts[0]), parts[1], int(parts[2]), parts[3]))
    for name in ("nation.impala.parquet", "snappy-nation.impala.parquet", "gzip-nation.impala.parquet",
                 "nation.dict.parquet", "nation.plain.parquet"):
        t = tables[name]
        cols = list(t.values())
        got = []
        for i in range(len(cols[0]) if cols else 0):
            got.append((cols[0][i], cols[1][i].decode("utf-8"), cols[2][i], cols[3][i].decode("utf-8")))
        F.check(got == rows, "%s differs from nation.csv" % name)
    t = tables["datapage_v2.snappy.parquet"]
    F.check(t == {"a": ["abc", "abc", "abc", None, "abc"], "b": [1, 2, 3, 4, 5], "c": [2.0, 3.0, 4.0, 5.0, 2.0],
                  "d": [True, True, True, False, True], "e": [[1, 2, 3], None, None, [1, 2, 3], [1, 2]]},
            "datapage_v2.snappy.parquet contents: %r" % (t,))
    pd = reader.read(fixture("datapage_v2.snappy.parquet"))
    encs = sorted(set(p.encoding for ch in pd.row_groups[0].chunks.values() for p in ch.pages if p.kind == "v2"))
    F.check(encs == ["DELTA_BINARY_PACKED", "RLE", "RLE_DICTIONARY"], "datapage_v2 encodings %s" % encs)
    t = tables["test-null.parquet"]
    F.check(t == {"foo": [1, 1], "bar": [2, None]}, "test-null: %r" % (t,))
    t = tables["test-null-dictionary.parquet"]
    F.check(t == {"foo": [None, "bar", "baz", "bar", "baz", "bar", "baz"]}, "test-null-dictionary: %r" % (t,))
    t = tables["test-converted-type-null.parquet"]
    F.check(t == {"foo": ["bar", None]}, "test-converted-type-null: %r" % (t,))
    t = tables["mr_times.parq"]
    F.check(t["id"][:3] == ["1", "2", "3"] and t["date_added"][:2] == [1470092881000000000, 1470179282000000000],
            "mr_times: %r" % (t,))
    t = tables["decimals.parquet"]
    F.check(t["PatId"][:2] == [633483, 714168] and t["EventDate"][0] == 1376956800 * 10 ** 9
            and t["weight measure:WEIGHT(KG, 0)"][:5] == [93 * 10 ** 18, 155 * 10 ** 18, 102 * 10 ** 18, 80 * 10 ** 18, 855 * 10 ** 17],
            "decimals: %r" % (t,))
    pd = reader.read(fixture("decimals.parquet"))
    F.check(pd.leaf("weight measure:WEIGHT(KG, 0)").annotation == ("DECIMAL", 38, 18), "decimals annotation")
    t = tables["test-timezone.parquet"]
    F.check(t == {"date": [1701696000000000000, 1701696300000000000]}, "test-timezone: %r" % (t,))
    t = tables["nested.parq"]
    F.check(t == {"nest": [{"thing": ["hi", "world"]}] * 10}, "nested.parq: %r" % (t,))
    t = tables["metas.parq"]
    F.check(t == {"a": [3, 3], "1": [2, 2]}, "metas.parq: %r" % (t,))
    t = tables["repeated_no_annotation.parquet"]
    F.check(t.get("id") == [1, 2, 3, 4, 5, 6] and t.get("phoneNumbers", [None] * 6)[5] == {"phone": [
        {"number": 1111111111, "kind": "home"}, {"number": 2222222222, "kind": None}, {"number": 3333333333, "kind": "mobile"}]}
        and t["phoneNumbers"][:3] == [None, None, {"phone": []}],
        "repeated_no_annotation: %r" % (t,))
    t = tables["map_array.parq"]
    F.check(len(t) == 8 and all(len(v) == 125 for v in t.values()), "map_array shape")
    return len(FIXTURE_EXPECT)


# =============================================================================
# (b) round trips
# =============================================================================

def check_roundtrips(F, n_plans=400, seed=0):
    rng = random.Random(seed)
    feats = {"encodings": set(), "codecs": set(), "index_bit_widths": set(), "delta_widths": set(),
             "page_versions": set(), "uses": set()}
    flags = {}
    total_bytes = 0
    t0 = time.time()
    for i in range(n_plans):
        plan = randplan.random_plan(rng)
        try:
            data, model = writer.write_with_model(plan)
        except Exception as e:
            F.check(False, "plan %d: writer raised %s: %s" % (i, type(e).__name__, e))
            continue
        total_bytes += len(data)
        for k in feats:
            feats[k].update(model.features[k])
        for k, v in model.features.items():
            if isinstance(v, bool) and v:
                flags[k] = flags.get(k, 0) + 1
        try:
            pd = reader.read(data)
        except Exception as e:
            F.check(False, "plan %d: reader raised %s: %s" % (i, type(e).__name__, e))
            continue
        if not F.check(not pd.issues, "plan %d: reader issues %s" % (i, pd.issues[:3])):
            continue
        allowed = {"level_section_slack"}
        uses = set(model.features["uses"])
        if "truncate_last_group" in uses:
            allowed |= {"bitpacked_truncated_padding"}
        if "trailing_bytes" in uses:
            allowed |= {"v1_trailing_bytes"}
        F.check(set(pd.tolerances) <= allowed, "plan %d: unexpected tolerances %s (uses %s)" % (i, pd.tolerances, sorted(uses)))
        try:
            table = pd.table()
        except Exception as e:
            F.check(False, "plan %d: table() raised %s: %s" % (i, type(e).__name__, e))
            continue
        F.check(list(table) == list(model.table), "plan %d: column names %s vs %s" % (i, list(table), list(model.table)))
        for name in model.table:
            if not same(table.get(name), model.table[name]):
                F.check(False, "plan %d: column %s differs: %r vs %r" % (i, name, str(table.get(name))[:200], str(model.table[name])[:200]))
            else:
                F.check(True, "")
        F.check(pd.num_rows == sum(len(rg["data"][plan["schema"][0]["name"]]) for rg in plan["row_groups"]),
                "plan %d: num_rows" % i)
        want_kv = [((k.encode() if isinstance(k, str) else k), (v.encode() if isinstance(v, str) else v)) for k, v in (plan.get("kv") or [])]
        F.check(pd.kv == want_kv, "plan %d: kv %r vs %r" % (i, pd.kv, want_kv))
    dt = time.time() - t0
    all_enc = {"PLAIN", "PLAIN_DICTIONARY", "RLE_DICTIONARY", "RLE", "DELTA_BINARY_PACKED",
               "DELTA_LENGTH_BYTE_ARRAY", "DELTA_BYTE_ARRAY", "BYTE_STREAM_SPLIT"}
    F.check(feats["encodings"] == all_enc, "round trips did not cover encodings %s" % sorted(all_enc - feats["encodings"]))
    F.check(feats["codecs"] == set(randplan.CODECS), "round trips did not cover codecs %s" % sorted(set(randplan.CODECS) - feats["codecs"]))
    F.check(feats["page_versions"] == {1, 2}, "page versions %s" % feats["page_versions"])
    F.check(set(range(0, 33)) <= feats["index_bit_widths"], "index widths not covered: %s" % sorted(set(range(33)) - feats["index_bit_widths"]))
    F.check(max(feats["delta_widths"] or [0]) >= 60, "delta widths covered only up to %s" % max(feats["delta_widths"] or [0]))
    for k in ("nested", "fallback", "compressed_v2_page", "has_nulls", "rle_run_ge2_in_indices", "page_split_inside_row",
              "null_elements", "empty_lists"):
        F.check(flags.get(k, 0) > 0, "round trips never had feature %s" % k)
    return n_plans, total_bytes, dt, feats


def check_directed_roundtrips(F):
    """Widths 0..32 for dictionary indices and every delta width 0..64."""
    n = 0
    # dictionary index widths: explicit width w with mixed runs
    for w in range(0, 33):
        vals = [(i * 7) % 5 for i in range(37)] if w >= 3 else [0] * 20
        if w in (1, 2):
            vals = [i % (1 << w) for i in range(37)]
        plan = {"schema": [{"name": "x", "repetition": "REQUIRED", "physical": "INT32"}],
                "row_groups": [{"data": {"x": vals}, "chunks": {"x": {"pages": [
                    {"encoding": "RLE_DICTIONARY", "bit_width": w, "index_runs": [["bp", 2], ["rle", 3], ["bp", 1]]}]}}}]}
        data, model = writer.write_with_model(plan)
        F.check(w in model.features["index_bit_widths"], "directed: width %d not used (%s)" % (w, model.features["index_bit_widths"]))
        pd = reader.read(data)
        F.check(not pd.issues and pd.column("x") == vals, "directed: dictionary width %d round trip: %s" % (w, pd.issues[:2]))
        n += 1
    # hybrid codec alone: every width, rle + bp mixtures, max values
    for w in range(0, 33):
        top = (1 << w) - 1
        vals = [top, 0, top, top, top, top, top, top, top, top, 0, 1 & top, top] * 3
        for runs in (None, [("rle", 1), ("bp", 1), ("rle", 9)], [("bp", 5)], [("rle", 100)]):
            b = enc.encode_hybrid(vals, w, runs)
            got, pos = enc.decode_hybrid(b, 0, len(b), w, len(vals))
            F.check(got == vals and pos == len(b), "hybrid width %d runs %s" % (w, runs))
            n += 1
    # delta: force every miniblock width 0..64 (INT64) and 0..32 (INT32)
    for is64, maxw in ((True, 64), (False, 32)):
        bits = 64 if is64 else 32
        for w in range(0, maxw + 1):
            # deltas alternate between -2**(w-1) and 2**(w-1) - 1 (wrapping) so that
            # max(delta - min_delta) = 2**w - 1 needs exactly w bits
            vals = [0]
            for i in range(70):
                d = 0 if w == 0 else (((1 << (w - 1)) - 1) if i % 2 else -(1 << (w - 1)))
                v = vals[-1] + d
                v &= (1 << bits) - 1
                if v >> (bits - 1):
                    v -= 1 << bits
                vals.append(v)
            info = {}
            b = enc.encode_delta(vals, 128, 4, is64, info)
            F.check(w in info["widths"], "delta: width %d not produced (%s)" % (w, info["widths"]))
            got, pos = enc.decode_delta(b, 0, is64)
            F.check(got == vals and pos == len(b), "delta is64=%s width %d round trip" % (is64, w))
            n += 1
    # delta block shapes and counts around block/miniblock boundaries
    rng = random.Random(1)
    for bs, mb in ((128, 4), (128, 1), (256, 8), (384, 3), (1024, 32)):
        for count in (0, 1, 2, 31, 32, 33, 64, 65, 127, 128, 129, 130, 257, 400):
            vals = [rng.randrange(-1000, 1000) for _ in range(count)]
            b = enc.encode_delta(vals, bs, mb, True)
            got, pos = enc.decode_delta(b, 0, True)
            F.check(got == vals and pos == len(b), "delta block %d/%d count %d" % (bs, mb, count))
            n += 1
    # byte array encodings
    vals = [b"", b"a", b"ab", b"abc", b"abd", b"b", b"", b"hello world", b"hello there"] * 20
    for f_enc, f_dec in ((enc.encode_delta_length_byte_array, enc.decode_delta_length_byte_array),
                         (enc.encode_delta_byte_array, enc.decode_delta_byte_array)):
        b = f_enc(vals)
        got, pos = f_dec(b, 0, len(b), len(vals))
        F.check(got == vals and pos == len(b), "%s round trip" % f_enc.__name__)
        n += 1
    # legacy BIT_PACKED: specification example, values 0..7 at width 3
    b = enc.encode_bitpacked_legacy(list(range(8)), 3)
    F.check(b == bytes([0b00000101, 0b00111001, 0b01110111]), "legacy BIT_PACKED spec example: %r" % (b,))
    # hybrid bit-packed: specification example, values 0..7 at width 3 (LSB first)
    b = enc.pack_bits(list(range(8)), 3)
    F.check(b == bytes([0b10001000, 0b11000110, 0b11111010]), "bit packing spec example: %r" % (b,))
    # delta: specification example 1 (1,2,3,4,5) and 2 (7,5,3,1,2,3,4,5)
    b = enc.encode_delta([1, 2, 3, 4, 5], 128, 4, True)
    F.check(b == bytes([128, 1, 4, 5, 2, 2, 0, 0, 0, 0]), "delta spec example 1: %r" % (list(b),))
    b = enc.encode_delta([7, 5, 3, 1, 2, 3, 4, 5], 128, 4, True)
    F.check(b[:9] == bytes([128, 1, 4, 8, 14, 3, 2, 0, 0]) and b[9] == 0 and len(b) == 10 + 8,
            "delta spec example 2: %r" % (list(b),))
    got, _ = enc.decode_delta(b, 0, True)
    F.check(got == [7, 5, 3, 1, 2, 3, 4, 5], "delta spec example 2 decode")
    return n


# =============================================================================
# (c) codecs
# =============================================================================

def check_codecs(F):
    import cramjam
    rng = random.Random(2)
    samples = [b"", b"a", b"ab" * 3, b"abcabcabcabcabc" * 50, bytes(1000), bytes(range(256)) * 9]
    for _ in range(40):
        n = rng.choice([1, 2, 15, 16, 17, 59, 60, 61, 64, 255, 256, 300, 5000, 70000])
        kind = rng.random()
        if kind < 0.3:
            samples.append(bytes(rng.getrandbits(8) for _ in range(n)))
        elif kind < 0.6:
            samples.append(bytes(rng.choice(b"ab") for _ in range(n)))
        else:
            words = [bytes(rng.getrandbits(8) for _ in range(rng.randrange(1, 9))) for _ in range(6)]
            out = bytearray()
            while len(out) < n:
                out += rng.choice(words) * rng.randrange(1, 40)
            samples.append(bytes(out[:n]))
    n = 0
    for s in samples:
        c = bytes(cramjam.snappy.compress_raw(s))
        F.check(codecs.snappy_decompress_raw(c) == s, "snappy decoder differs (len %d)" % len(s))
        F.check(bytes(cramjam.snappy.decompress_raw(c)) == s, "cramjam snappy sanity")
        c = bytes(cramjam.lz4.compress_block(s, store_size=False))
        F.check(codecs.lz4_block_decompress(c) == s, "lz4 decoder differs (len %d)" % len(s))
        if s:
            F.check(bytes(cramjam.lz4.decompress_block(c, output_len=len(s))) == s, "cramjam lz4 sanity")
        hadoop = struct.pack(">II", len(s), len(c)) + c
        if s:
            F.check(codecs.decompress("LZ4", hadoop, len(s)) == s and codecs.LAST_LZ4_LAYOUT[0] == "hadoop", "LZ4 hadoop framing")
        for name in codecs.SUPPORTED:
            z = codecs.compress(name, s)
            F.check(codecs.decompress(name, z, len(s)) == s, "%s round trip (len %d)" % (name, len(s)))
            n += 1
    # hand made streams: snappy literal-only with 1..4 byte length forms and each copy form
    lit = bytes(range(70))
    F.check(codecs.snappy_decompress_raw(bytes([70, (60 << 2), 69]) + lit) == lit, "snappy 1-byte literal length form")
    F.check(codecs.snappy_decompress_raw(bytes([70, (61 << 2), 69, 0]) + lit) == lit, "snappy 2-byte literal length form")
    F.check(codecs.snappy_decompress_raw(bytes([12, (3 << 2)]) + b"abcd" + bytes([((4 - 4) << 2) | 1 | (0 << 5), 4]) + bytes([(3 << 2) | 2, 8, 0]))
            == b"abcdabcdabcd", "snappy copy forms")
    F.check(codecs.snappy_decompress_raw(bytes([9, 0]) + b"a" + bytes([((8 - 1) << 2) | 2, 1, 0])) == b"a" * 9, "snappy overlapping copy")
    F.check(codecs.lz4_block_decompress(bytes([0x1F]) + b"a" + bytes([1, 0, 10]) + bytes([0x10]) + b"z") == b"a" * (1 + 4 + 15 + 10) + b"z",
            "lz4 overlapping match with length extension")
    for bad in (b"\x05\x00a", b"\x02\x01\x01"):
        try:
            codecs.snappy_decompress_raw(bad)
            F.check(False, "snappy accepted a corrupt stream %r" % (bad,))
        except codecs.CodecError:
            F.check(True, "")
    return n


# =============================================================================
# (d) compact protocol
# =============================================================================

def random_value(rng, idl, t, depth=0):
    k = t[0]
    if k == "bool":
        return rng.random() < 0.5
    if k == "byte":
        return rng.choice([-128, 127, 0, rng.randrange(-128, 128)])
    if k in ("i16", "i32", "i64"):
        bits = int(k[1:])
        r = rng.random()
        if r < 0.15:
            return rng.choice([-(1 << (bits - 1)), (1 << (bits - 1)) - 1, 0, -1, 1])
        mag = rng.getrandbits(rng.randrange(1, bits))
        return -mag if rng.random() < 0.5 else mag
    if k == "enum":
        return rng.choice(sorted(idl.enums[t[1]].values()))
    if k == "double":
        return rng.choice([0.0, -0.0, 1.5, float("inf"), float("nan"), rng.uniform(-1e300, 1e300)])
    if k in ("binary", "string"):
        n = rng.choice([0, 1, 2, 127, 128, 300])
        return bytes(rng.getrandbits(8) for _ in range(n))
    if k == "list":
        n = rng.choice([0, 1, 2, 14, 15, 16, 20]) if depth < 2 else rng.choice([0, 1, 2])
        return [random_value(rng, idl, t[1], depth + 1) for _ in range(n)]
    if k == "struct":
        return random_struct(rng, idl, t[1], depth + 1)
    raise ValueError(t)


def random_struct(rng, idl, name, depth=0):
    fields = idl.structs[name]
    out = {}
    if name in idl.unions:
        f = rng.choice(fields)
        out[f.name] = random_value(rng, idl, f.type, depth)
        return out
    for f in fields:
        if f.req == "required" or rng.random() < (0.6 if depth < 3 else 0.2):
            out[f.name] = random_value(rng, idl, f.type, depth)
    return out


def check_compact(F):
    idl = _idl.load()
    F.check(len(idl.structs) == 51, "IDL has %d structs" % len(idl.structs))
    rng = random.Random(3)
    n = 0
    for name in idl.order:
        for _ in range(25):
            v = random_struct(rng, idl, name)
            b = compact.encode(v, name)
            got, end, issues = compact.decode(b, name)
            F.check(end == len(b), "compact %s: decoder stopped at %d of %d" % (name, end, len(b)))
            F.check(not compact.real_issues(issues), "compact %s: issues %s" % (name, issues[:3]))
            F.check(same(got, v), "compact %s: round trip differs\n %r\n %r" % (name, got, v))
            toks, tend = compact.tokenize(b)
            F.check(tend == len(b), "compact %s: tokenizer end" % name)
            n += 1
    # varints
    for v in [0, 1, 127, 128, 16383, 16384, (1 << 63) - 1, (1 << 64) - 1]:
        got, pos = compact.read_uvarint(compact.uvarint(v), 0)
        F.check(got == v, "uvarint %d" % v)
    for v in [0, -1, 1, -2, (1 << 63) - 1, -(1 << 63)]:
        F.check(compact.unzigzag(compact.zigzag(v)) == v, "zigzag %d" % v)
    F.check([compact.zigzag(x) for x in (0, -1, 1, -2, 2)] == [0, 1, 2, 3, 4], "zigzag table")
    # strictness: i64 where i32 is declared, unknown field, missing required, union arity
    b = bytes([0x16, 0x02, 0x00])       # field 1, wire type i64
    _, _, iss = compact.decode(b, "DecimalType")
    F.check(any(i.startswith("wire_type DecimalType.scale") for i in iss) and any(i.startswith("missing_required DecimalType.precision") for i in iss),
            "strict decode: %s" % iss)
    b = compact.encode({"scale": 1, "precision": 2}, "DecimalType")[:-1] + bytes([0xF5, 0x02, 0x00])   # field 17
    _, _, iss = compact.decode(b, "DecimalType")
    F.check(any(i.startswith("unknown_field DecimalType id=17") for i in iss), "unknown field: %s" % iss)
    b = bytes([0x1C, 0x00, 0x1C, 0x00, 0x00])
    _, _, iss = compact.decode(b, "TimeUnit")
    F.check(any(i.startswith("union_arity TimeUnit: 2") for i in iss), "union arity: %s" % iss)
    b = compact.encode({"type": 0, "encodings": [], "path_in_schema": [], "codec": 0, "num_values": 0,
                        "total_uncompressed_size": 0, "total_compressed_size": 0, "data_page_offset": 0}, "ColumnMetaData")
    b2 = b.replace(bytes([0x19, 0x05]), bytes([0x19, 0x06]), 1)   # empty list<i32> announced as list<i64>
    _, _, iss = compact.decode(b2, "ColumnMetaData")
    F.check(iss and all(i.startswith("note empty_list_elem_type") for i in iss), "empty list tolerance: %s" % iss)
    for bad in (b"", b"\x15", b"\x18\x05ab", b"\x1f\x00"):
        try:
            compact.decode(bad, "KeyValue")
            F.check(False, "compact accepted truncated input %r" % (bad,))
        except compact.ThriftError:
            F.check(True, "")
    # fixtures' footers
    for name in sorted(FIXTURE_EXPECT):
        d = fixture(name)
        flen = struct.unpack("<I", d[-8:-4])[0]
        v, end, issues = compact.decode(d[:-8], "FileMetaData", len(d) - 8 - flen)
        F.check(end == len(d) - 8, "%s: footer not consumed exactly" % name)
        F.check(not compact.real_issues(issues), "%s: footer issues %s" % (name, issues[:3]))
        F.check(compact.decode(compact.encode(v, "FileMetaData"), "FileMetaData")[0] == v, "%s: footer re-encode" % name)
    return n



# =============================================================================
# (e) the reader notices planted violations
# =============================================================================

def _refoot(data, fn):
    """Decode the footer, let fn(meta) edit it, re-encode (data area untouched)."""
    flen = struct.unpack("<I", data[-8:-4])[0]
    start = len(data) - 8 - flen
    meta, _, _ = compact.decode(data[:-8], "FileMetaData", start)
    fn(meta)
    foot = compact.encode(meta, "FileMetaData")
    return data[:start] + foot + struct.pack("<I", len(foot)) + b"PAR1"


def _repage(data, offset, fn):
    """Edit the page header at ``offset`` in place; the encoding must keep its length."""
    hdr, end, _ = compact.decode(data, "PageHeader", offset)
    fn(hdr)
    new = compact.encode(hdr, "PageHeader")
    if len(new) != end - offset:
        raise AssertionError("page header edit changed its length")
    return data[:offset] + new + data[end:]


def check_negative(F):
    base_plan = {
        "schema": [{"name": "a", "repetition": "OPTIONAL", "physical": "INT32"},
                   {"name": "b", "repetition": "OPTIONAL", "physical": "INT32"},
                   {"name": "s", "repetition": "REQUIRED", "physical": "BYTE_ARRAY", "converted": "UTF8"}],
        "row_groups": [{"data": {"a": [1, None, 3, 4, 1, 1, 3, None, 9, 10], "b": [5, 6, None, 8, 5, 5, 6, 6, 7, 7],
                                 "s": ["x", "y", "x", "z", "x", "y", "x", "z", "x", "y"]},
                        "chunks": {"a": {"stats": True, "pages": [{"n": 5, "version": 1, "encoding": "RLE_DICTIONARY"}, {"version": 2, "encoding": "RLE_DICTIONARY"}]},
                                   "b": {"stats": True, "pages": [{"version": 2}]},
                                   "s": {"pages": [{"encoding": "PLAIN"}]}}}],
    }
    good = writer.write(base_plan)
    pd0 = reader.read(good)
    F.check(not pd0.issues and not pd0.tolerances, "negative: base file is not clean: %s %s" % (pd0.issues, pd0.tolerances))
    pages_a = pd0.row_groups[0].chunks[("a",)].pages
    pages_b = pd0.row_groups[0].chunks[("b",)].pages

    def col(meta, i):
        return meta["row_groups"][0]["columns"][i]["meta_data"]

    def bump(key, i=0, delta=1):
        def fn(meta):
            col(meta, i)[key] += delta
        return fn

    cases = []

    def footer_case(name, fn, kinds):
        cases.append((name, _refoot(good, fn), kinds))

    cases.append(("magic head", b"PAR2" + good[4:], {"magic"}))
    cases.append(("magic tail", good[:-4] + b"PARE", {"magic"}))
    cases.append(("footer length", good[:-8] + struct.pack("<I", len(good)) + good[-4:], {"footer_len"}))
    flen = struct.unpack("<I", good[-8:-4])[0]
    cases.append(("footer trailing byte", good[:-8] + b"\x00" + struct.pack("<I", flen + 1) + b"PAR1", {"footer_trailing"}))
    fstart = len(good) - 8 - flen
    F.check(good[fstart] == 0x15, "negative: footer does not start with field 1 / i32")
    cases.append(("version written as i64", good[:fstart] + b"\x16" + good[fstart + 1:], {"thrift"}))
    footer_case("file num_rows", lambda m: m.__setitem__("num_rows", m["num_rows"] + 1), {"num_rows"})
    footer_case("row group num_rows", lambda m: (m["row_groups"][0].__setitem__("num_rows", 11), m.__setitem__("num_rows", 11)), {"num_rows"})
    footer_case("num_values", bump("num_values"), {"num_values"})
    footer_case("total_compressed_size", bump("total_compressed_size"), {"page_tiling", "compressed_size"})
    footer_case("total_uncompressed_size", bump("total_uncompressed_size", 1, -1), {"uncompressed_size"})
    footer_case("encodings emptied", lambda m: col(m, 2).__setitem__("encodings", []), {"encodings_list"})
    footer_case("encodings without RLE", lambda m: col(m, 2).__setitem__("encodings", [0]), set())
    footer_case("level encoding unlisted", lambda m: col(m, 0).__setitem__("encodings", [0, 8]), {"encodings_list_levels"})
    footer_case("encoding_stats", lambda m: col(m, 1)["encoding_stats"][0].__setitem__("count", 2), {"encoding_stats"})
    footer_case("codec id", lambda m: col(m, 1).__setitem__("codec", 99), {"codec"})
    footer_case("null_count", lambda m: col(m, 0)["statistics"].__setitem__("null_count", 3), {"null_count"})
    footer_case("max below data", lambda m: col(m, 1)["statistics"].__setitem__("max_value", struct.pack("<i", 7)), {"stats_bounds"})
    footer_case("statistic width", lambda m: col(m, 1)["statistics"].__setitem__("min_value", b"\x00"), {"stats_decode"})
    footer_case("data_page_offset", bump("data_page_offset", 1, 1), {"data_offset"})
    footer_case("dictionary_page_offset above data", lambda m: col(m, 0).__setitem__("dictionary_page_offset", col(m, 0)["data_page_offset"] + 1), {"dict_offset"})
    footer_case("chunks overlap", lambda m: col(m, 1).update(dict((k, col(m, 0)[k]) for k in (
        "data_page_offset", "dictionary_page_offset", "total_compressed_size", "total_uncompressed_size", "encodings", "encoding_stats", "statistics", "num_values"))),
        {"chunk_overlap"})
    footer_case("path_in_schema", lambda m: col(m, 1).__setitem__("path_in_schema", [b"zz"]), {"schema"})
    footer_case("physical type", lambda m: col(m, 1).__setitem__("type", 2), {"schema"})
    footer_case("column dropped", lambda m: m["row_groups"][0]["columns"].pop(), {"schema"})
    v2a = [p for p in pages_a if p.kind == "v2"][0]
    cases.append(("v2 num_nulls", _repage(good, v2a.offset, lambda h: h["data_page_header_v2"].__setitem__("num_nulls", 2)), {"null_count"}))
    cases.append(("v2 num_rows", _repage(good, v2a.offset, lambda h: h["data_page_header_v2"].__setitem__("num_rows", 4)), {"num_rows"}))
    cases.append(("v2 def length", _repage(good, v2a.offset, lambda h: h["data_page_header_v2"].__setitem__("definition_levels_byte_length", 1)),
                  {"level_framing"}))
    cases.append(("dictionary shortened", _repage(good, pages_a[0].offset, lambda h: h["dictionary_page_header"].__setitem__("num_values", 4)),
                  {"index_out_of_range"}))
    v1a = [p for p in pages_a if p.kind == "v1"][0]
    body = v1a.offset + v1a.header_len
    cases.append(("v1 level length", good[:body] + struct.pack("<I", 1000) + good[body + 4:], {"level_framing"}))
    cases.append(("page uncompressed size", _repage(good, pages_b[0].offset, lambda h: h.__setitem__("uncompressed_page_size", h["uncompressed_page_size"] + 1)),
                  {"uncompressed_size"}))
    bad_utf = writer.write({"schema": [{"name": "s", "repetition": "REQUIRED", "physical": "BYTE_ARRAY", "converted": "UTF8"}],
                            "row_groups": [{"data": {"s": ["ok", {"hex": "ff"}]}}]})
    cases.append(("invalid utf-8", bad_utf, {"utf8"}))
    bad_int = writer.write({"schema": [{"name": "i", "repetition": "REQUIRED", "physical": "INT32", "converted": "INT_8"}],
                            "row_groups": [{"data": {"i": [1, 300]}}]})
    cases.append(("INT_8 out of range", bad_int, {"int_range"}))
    lzo = writer.write({"schema": [{"name": "i", "repetition": "REQUIRED", "physical": "INT32"}],
                        "row_groups": [{"data": {"i": [1, 2]}, "chunks": {"i": {"codec": "LZO"}}}]})
    cases.append(("LZO", lzo, {"unsupported"}))
    n = 0
    for name, data, kinds in cases:
        try:
            pd = reader.read(data)
        except Exception as e:
            F.check(False, "negative %s: reader raised %s: %s" % (name, type(e).__name__, e))
            continue
        got = set(pd.issue_kinds())
        if kinds:
            # the planted defect must be reported under (one of) its own kind(s);
            # follow-up issues caused by the same defect are not counted against the reader
            F.check(bool(got & kinds), "negative %s: issue kinds %s, expected one of %s (%s)" % (name, sorted(got), sorted(kinds), pd.issues[:2]))
        else:
            F.check(not got, "negative %s: unexpected issues %s" % (name, pd.issues[:2]))
        n += 1
    return n

# =============================================================================
# dremel
# =============================================================================

def check_dremel(F):
    s = dremel.list_schema("a", {"physical": "INT32"})
    st = dremel.shred([[1, 2, None], None, [], [3]], s)
    F.check(st[("a", "list", "element")] == ([0, 1, 1, 0, 0, 0], [3, 3, 2, 0, 1, 3], [1, 2, 3]), "dremel LIST levels: %s" % (st,))
    F.check(dremel.assemble(s, st) == [[1, 2, NULL], NULL, [], [3]], "dremel LIST assembly")
    # the Dremel paper's / parquet blog's nested example: list of lists
    ll = {"name": "x", "repetition": "OPTIONAL", "converted": "LIST", "children": [
        {"name": "list", "repetition": "REPEATED", "children": [dremel.list_schema("element", {"physical": "INT32"})]}]}
    rows = [[[1, 2], [], None, [None, 3]], None, []]
    st = dremel.shred(rows, ll)
    F.check(list(st.values())[0] == ([0, 2, 1, 1, 1, 2, 0, 0], [5, 5, 3, 2, 4, 5, 0, 1], [1, 2, 3]), "dremel nested lists: %s" % (st,))
    F.check(reader.to_py(dremel.assemble(ll, st)) == rows, "dremel nested assembly")
    return 4


# =============================================================================
# optional cross check with fastparquet (never used by the oracle itself)
# =============================================================================

def optional_fastparquet_crosscheck(F):
    import tempfile
    import warnings
    warnings.simplefilter("ignore")
    import fastparquet  # noqa: only here
    import numpy as np
    n = 0
    for name in ("nation.impala.parquet", "test.parquet", "foo.parquet", "test-null.parquet", "mr_times.parq"):
        pd = reader.read(fixture(name))
        df = fastparquet.ParquetFile(os.path.join(FIXTURES, name)).to_pandas()
        t = pd.table()
        for col in df.columns:
            mine = t[col]
            theirs = list(df[col])
            ok = len(mine) == len(theirs)
            for a, b in zip(mine, theirs):
                if a is None or str(b) in ("<NA>", "NaT", "None", "nan"):
                    ok = ok and a is None and str(b) in ("<NA>", "NaT", "None", "nan")
                elif hasattr(b, "value"):
                    ok = ok and a == b.value
                elif isinstance(a, str) and isinstance(b, bytes):
                    ok = ok and a.encode() == b
                else:
                    ok = ok and a == b
            F.check(ok, "fastparquet cross check %s.%s" % (name, col))
            n += 1
    tmp = tempfile.mkdtemp(prefix="refpq-selftest-")
    try:
        import pandas
        df = pandas.DataFrame({"i": np.arange(50, dtype="int64"), "f": np.arange(50) / 3.0,
                               "s": ["s%d" % (i % 4) for i in range(50)], "c": pandas.Categorical(["x", "y"] * 25)})
        for comp in (None, "SNAPPY", "GZIP", "ZSTD", "LZ4"):
            fn = os.path.join(tmp, "t.parquet")
            fastparquet.write(fn, df, compression=comp, row_group_offsets=[0, 20])
            with open(fn, "rb") as f:
                pd = reader.read(f.read())
            kinds = set(pd.issue_kinds()) - {"encodings_list_levels"}
            F.check(not kinds, "fastparquet-written file (%s): %s" % (comp, pd.issues[:3]))
            t = pd.table()
            F.check(t["i"] == list(range(50)) and t["s"] == list(df["s"]) and t["c"] == ["x", "y"] * 25
                    and t["f"] == [float(x) for x in df["f"]], "fastparquet-written file contents (%s)" % comp)
            n += 1
    finally:
        import shutil
        shutil.rmtree(tmp, ignore_errors=True)
    return n


def main(argv=None):
    argv = list(sys.argv[1:] if argv is None else argv)
    F = Failures()
    t0 = time.time()
    parts = []
    for label, fn in (("fixtures", check_fixtures), ("dremel", check_dremel), ("codecs", check_codecs),
                      ("compact", check_compact), ("directed", check_directed_roundtrips),
                      ("negative", check_negative)):
        t1 = time.time()
        try:
            n = fn(F)
        except Exception as e:
            import traceback
            traceback.print_exc()
            F.check(False, "%s: crashed with %s: %s" % (label, type(e).__name__, e))
            n = 0
        parts.append("%s=%d (%.1fs)" % (label, n, time.time() - t1))
    try:
        n, nbytes, dt, feats = check_roundtrips(F)
        parts.append("roundtrips=%d plans, %d bytes (%.1fs)" % (n, nbytes, dt))
    except Exception as e:
        import traceback
        traceback.print_exc()
        F.check(False, "roundtrips crashed: %s: %s" % (type(e).__name__, e))
    if "--fastparquet" in argv:
        try:
            n = optional_fastparquet_crosscheck(F)
            parts.append("fastparquet-crosscheck=%d" % n)
        except Exception as e:
            import traceback
            traceback.print_exc()
            F.check(False, "fastparquet cross check crashed: %s: %s" % (type(e).__name__, e))
    print("refpq selftest: %s; %d checks, %d failures, %.1fs" % ("; ".join(parts), F.checks, len(F.items), time.time() - t0))
    return 1 if F.items else 0


if __name__ == "__main__":
    sys.exit(main())
