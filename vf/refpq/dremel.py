"""Dremel record shredding and assembly for Parquet schema trees.

Schema nodes (plain dicts, JSON-able; also used by ``writer`` plans):

    leaf  : {"name": str, "repetition": "REQUIRED"|"OPTIONAL"|"REPEATED",
             "physical": "INT32"|..., optional "converted", "logical",
             "type_length", "scale", "precision", "field_id"}
    group : {"name": str, "repetition": ..., "children": [node, ...],
             optional "converted": "LIST"|"MAP"|"MAP_KEY_VALUE", "logical"}

Two value domains exist for a column:

* the *raw* domain mirrors the schema literally: group -> dict keyed by child
  name, REPEATED node -> python list, OPTIONAL node -> value or NULL;
* the *logical* domain applies the LIST / MAP annotations
  (LogicalTypes.md, including the backward-compatibility rules):
  LIST -> python list of elements, MAP -> python list of (key, value) tuples.

``shred``   : logical rows  -> per-leaf (rep_levels, def_levels, values)
``assemble``: per-leaf levels -> logical rows

The two directions are written separately on purpose (the reader uses
``assemble``, the writer uses ``shred``): shredding walks the *value* top-down
and emits level pairs, assembly walks the *level streams* and splits them by
repetition level.  Null is represented by the ``NULL`` sentinel in both
(``shred`` also accepts ``None``).
"""


class _Null(object):
    __slots__ = ()

    def __repr__(self):
        return "NULL"

    def __bool__(self):
        return False

    def __reduce__(self):
        return (_get_null, ())

    def __copy__(self):
        return self

    def __deepcopy__(self, memo):
        return self


NULL = _Null()


def _get_null():
    return NULL


def to_py(x, maps_as_dict=False):
    """Map NULL -> None recursively (tuples stay tuples)."""
    if x is NULL:
        return None
    if isinstance(x, list):
        if maps_as_dict and x and all(isinstance(i, tuple) and len(i) == 2 for i in x):
            return dict((to_py(k, maps_as_dict), to_py(v, maps_as_dict)) for k, v in x)
        return [to_py(i, maps_as_dict) for i in x]
    if isinstance(x, tuple):
        return tuple(to_py(i, maps_as_dict) for i in x)
    if isinstance(x, dict):
        return dict((k, to_py(v, maps_as_dict)) for k, v in x.items())
    return x


class DremelError(Exception):
    pass


def is_leaf(node):
    return "children" not in node or node.get("children") is None


def _annotation(node):
    """'LIST' | 'MAP' | None for a group node (converted or logical type)."""
    c = node.get("converted")
    if c in ("LIST", "MAP"):
        return c
    if c == "MAP_KEY_VALUE":
        # legacy: normally sits on the repeated key_value group *inside* a MAP
        # group (then it means nothing by itself); when it annotates the outer
        # group instead of MAP it is to be treated like MAP.
        kids = node.get("children") or []
        if len(kids) == 1 and kids[0].get("repetition") == "REPEATED" and not is_leaf(kids[0]):
            return "MAP"
        return None
    lg = node.get("logical")
    if isinstance(lg, dict):
        if "LIST" in lg:
            return "LIST"
        if "MAP" in lg:
            return "MAP"
    return None


def leaves_of(node, prefix=()):
    """[(path tuple, leaf node, max_def, max_rep)] below (and including) node."""
    out = []

    def walk(n, path, d, r):
        rep = n.get("repetition", "REQUIRED")
        if rep == "OPTIONAL":
            d += 1
        elif rep == "REPEATED":
            d += 1
            r += 1
        path = path + (n["name"],)
        if is_leaf(n):
            out.append((path, n, d, r))
        else:
            for c in n["children"]:
                walk(c, path, d, r)

    walk(node, tuple(prefix), 0, 0)
    return out


# ---------------------------------------------------------------------------
# LIST / MAP structure rules (LogicalTypes.md)
# ---------------------------------------------------------------------------

def list_layout(node):
    """Classify a LIST annotated group.

    Returns (repeated child, mode) where mode is
      'standard' - repeated group with exactly one child that is the element
                   (rule 4: element keeps its own repetition)
      'repeated_is_element' - the repeated node itself is the (required)
                   element: repeated primitive, repeated group with several
                   fields, or one field and named 'array' / '<list>_tuple'.
    """
    kids = node["children"]
    if len(kids) != 1 or kids[0].get("repetition") != "REPEATED":
        raise DremelError("LIST group %r must contain exactly one repeated field" % node["name"])
    rep = kids[0]
    if is_leaf(rep):
        return rep, "repeated_is_element"
    if len(rep["children"]) != 1:
        return rep, "repeated_is_element"
    if rep["name"] == "array" or rep["name"] == node["name"] + "_tuple":
        return rep, "repeated_is_element"
    return rep, "standard"


def map_layout(node):
    """-> (repeated key_value group, key node, value node or None)."""
    kids = node["children"]
    if len(kids) != 1 or kids[0].get("repetition") != "REPEATED" or is_leaf(kids[0]):
        raise DremelError("MAP group %r must contain exactly one repeated group" % node["name"])
    kv = kids[0]
    ch = kv["children"]
    if len(ch) not in (1, 2):
        raise DremelError("MAP key_value group of %r must have 1 or 2 fields" % node["name"])
    return kv, ch[0], (ch[1] if len(ch) == 2 else None)


# ---------------------------------------------------------------------------
# shredding (writer side)
# ---------------------------------------------------------------------------

def logical_to_raw(node, value):
    """Convert one logical value of ``node`` to the raw (schema literal) domain.

    The node's own repetition is handled by the caller for REPEATED (a bare
    repeated field carries a python list of items in both domains).
    """
    if value is None or value is NULL:
        return NULL
    rep = node.get("repetition", "REQUIRED")
    if rep == "REPEATED":
        if not isinstance(value, (list, tuple)):
            raise DremelError("repeated field %r needs a list, got %r" % (node["name"], value))
        return [_content_to_raw(node, v) for v in value]
    return _content_to_raw(node, value)


def _content_to_raw(node, value):
    if is_leaf(node):
        return value
    ann = _annotation(node)
    if ann == "LIST":
        rep, mode = list_layout(node)
        if not isinstance(value, (list, tuple)):
            raise DremelError("LIST %r needs a list, got %r" % (node["name"], value))
        if mode == "repeated_is_element":
            items = []
            for v in value:
                if v is None or v is NULL:
                    raise DremelError("LIST %r (legacy layout) cannot hold null elements" % node["name"])
                items.append(_content_to_raw(rep, v))
            return {rep["name"]: items}
        elem = rep["children"][0]
        return {rep["name"]: [{elem["name"]: logical_to_raw(elem, v)} for v in value]}
    if ann == "MAP":
        kv, k, v = map_layout(node)
        if isinstance(value, dict):
            value = list(value.items())
        items = []
        for pair in value:
            key, val = pair
            if key is None or key is NULL:
                raise DremelError("MAP %r cannot hold null keys" % node["name"])
            item = {k["name"]: logical_to_raw(k, key)}
            if v is not None:
                item[v["name"]] = logical_to_raw(v, val)
            items.append(item)
        return {kv["name"]: items}
    if not isinstance(value, dict):
        raise DremelError("group %r needs a dict, got %r" % (node["name"], value))
    return dict((c["name"], logical_to_raw(c, value.get(c["name"]))) for c in node["children"])


def shred(rows, schema_desc):
    """Shred logical rows of one top-level column.

    Returns {path tuple: (rep_levels, def_levels, values)} in leaf order; a
    plain ``(rep, def, values)`` triple is what a single-leaf column yields via
    ``shred_single``.
    """
    leaves = leaves_of(schema_desc)
    out = dict((p, ([], [], [])) for p, _, _, _ in leaves)
    for row in rows:
        raw = logical_to_raw(schema_desc, row)
        _emit(schema_desc, raw, 0, 0, 0, (), out)
    return out


def shred_single(rows, schema_desc):
    res = shred(rows, schema_desc)
    if len(res) != 1:
        raise DremelError("column %r has %d leaves" % (schema_desc["name"], len(res)))
    return list(res.values())[0]


def _emit_null(node, r, d, path, out):
    """Every leaf below node records (r, d) without a value."""
    for p, _, _, _ in leaves_of(node, path):
        reps, defs, _vals = out[p]
        reps.append(r)
        defs.append(d)


def _emit(node, raw, r, d, rdepth, path, out):
    """r: repetition level to emit for the first leaf entry produced,
    d: definition level reached by the ancestors, rdepth: number of repeated
    ancestors (= repetition level of entries that continue the innermost
    enclosing list)."""
    rep = node.get("repetition", "REQUIRED")
    if rep == "OPTIONAL":
        if raw is NULL or raw is None:
            _emit_null(node, r, d, path, out)
            return
        _emit_content(node, raw, r, d + 1, rdepth, path, out)
    elif rep == "REPEATED":
        if raw is NULL or raw is None:
            raw = []
        if len(raw) == 0:
            _emit_null(node, r, d, path, out)
            return
        for i, item in enumerate(raw):
            _emit_content(node, item, r if i == 0 else rdepth + 1, d + 1, rdepth + 1, path, out)
    else:
        if raw is NULL or raw is None:
            raise DremelError("null in REQUIRED field %r" % (node["name"],))
        _emit_content(node, raw, r, d, rdepth, path, out)


def _emit_content(node, raw, r, d, rdepth, path, out):
    path = path + (node["name"],)
    if is_leaf(node):
        reps, defs, vals = out[path]
        reps.append(r)
        defs.append(d)
        vals.append(raw)
        return
    # every child starts at the same repetition level r: each leaf stream is
    # independent, so each one sees the row / item start on its own
    for c in node["children"]:
        _emit(c, raw.get(c["name"], NULL), r, d, rdepth, path, out)


# ---------------------------------------------------------------------------
# assembly (reader side)
# ---------------------------------------------------------------------------

def split_rows(rep_levels):
    """Start indices of rows: positions where repetition level is 0."""
    return [i for i, r in enumerate(rep_levels) if r == 0]


def assemble_raw(schema_desc, streams):
    """Assemble raw rows of one top-level column.

    ``streams``: {path tuple: (rep_levels, def_levels, values)} where values
    holds only the non-null leaf values in order.  Returns a list of raw rows.
    """
    leaves = leaves_of(schema_desc)
    per_leaf = {}
    nrows = None
    for path, leaf, max_def, max_rep in leaves:
        reps, defs, vals = streams[path]
        if max_rep == 0:
            reps = [0] * len(defs)
        if len(reps) != len(defs):
            raise DremelError("leaf %s: %d repetition vs %d definition levels" % (".".join(path), len(reps), len(defs)))
        entries = []
        vi = 0
        for r, d in zip(reps, defs):
            if d == max_def:
                if vi >= len(vals):
                    raise DremelError("leaf %s: fewer values than defined entries" % ".".join(path))
                entries.append((r, d, vals[vi]))
                vi += 1
            else:
                entries.append((r, d, NULL))
        if vi != len(vals):
            raise DremelError("leaf %s: %d values but %d defined entries" % (".".join(path), len(vals), vi))
        if entries and entries[0][0] != 0:
            raise DremelError("leaf %s: first repetition level is %d" % (".".join(path), entries[0][0]))
        rows = []
        for e in entries:
            if e[0] == 0:
                rows.append([e])
            else:
                rows[-1].append(e)
        per_leaf[path] = rows
        if nrows is None:
            nrows = len(rows)
        elif nrows != len(rows):
            raise DremelError("leaves of %r disagree on the number of rows" % schema_desc["name"])
    out = []
    for i in range(nrows or 0):
        row_entries = dict((p, per_leaf[p][i]) for p in per_leaf)
        out.append(_asm(schema_desc, row_entries, 0, 0, ()))
    return out


def _first(entries_by_leaf):
    for p in entries_by_leaf:
        return entries_by_leaf[p]
    raise DremelError("group without leaves")


def _asm(node, ebl, d, r, path):
    """Assemble node from the entries (per leaf below node) that belong to one
    instance of the parent.  d / r: definition / repetition level of the parent."""
    rep = node.get("repetition", "REQUIRED")
    if rep == "REQUIRED":
        return _asm_content(node, ebl, d, r, path)
    if rep == "OPTIONAL":
        first = _first(ebl)
        if first[0][1] < d + 1:
            for p in ebl:
                if len(ebl[p]) != 1:
                    raise DremelError("null %s carries %d entries" % (".".join(path + (node["name"],)), len(ebl[p])))
            return NULL
        return _asm_content(node, ebl, d + 1, r, path)
    # REPEATED
    first = _first(ebl)
    if first[0][1] < d + 1:
        for p in ebl:
            if len(ebl[p]) != 1:
                raise DremelError("empty %s carries %d entries" % (".".join(path + (node["name"],)), len(ebl[p])))
        return []
    my_r = r + 1
    split = {}
    count = None
    for p in ebl:
        items = []
        for k, e in enumerate(ebl[p]):
            if k == 0 or e[0] == my_r:
                items.append([e])
            elif e[0] > my_r:
                items[-1].append(e)
            else:
                raise DremelError("repetition level %d inside an instance at level %d" % (e[0], my_r))
        split[p] = items
        if count is None:
            count = len(items)
        elif count != len(items):
            raise DremelError("leaves below %s disagree on item count" % ".".join(path + (node["name"],)))
    return [_asm_content(node, dict((p, split[p][i]) for p in split), d + 1, my_r, path)
            for i in range(count)]


def _asm_content(node, ebl, d, r, path):
    path = path + (node["name"],)
    if is_leaf(node):
        entries = ebl[path]
        if len(entries) != 1:
            raise DremelError("leaf %s instance carries %d entries" % (".".join(path), len(entries)))
        e = entries[0]
        if e[1] != d:
            raise DremelError("leaf %s: definition level %d, expected %d" % (".".join(path), e[1], d))
        return e[2]
    out = {}
    for c in node["children"]:
        sub = dict((p, ebl[p]) for p in ebl if p[:len(path) + 1] == path + (c["name"],))
        out[c["name"]] = _asm(c, sub, d, r, path)
    return out


def raw_to_logical(node, raw):
    """Apply LIST / MAP annotations to one raw value of ``node``."""
    if raw is NULL:
        return NULL
    if node.get("repetition") == "REPEATED":
        return [_content_to_logical(node, x) for x in raw]
    return _content_to_logical(node, raw)


def _content_to_logical(node, raw):
    if is_leaf(node):
        return raw
    ann = _annotation(node)
    if ann == "LIST":
        try:
            rep, mode = list_layout(node)
        except DremelError:
            ann = None
        else:
            items = raw[rep["name"]]
            if mode == "repeated_is_element":
                return [_content_to_logical(rep, x) for x in items]
            elem = rep["children"][0]
            return [raw_to_logical(elem, x[elem["name"]]) for x in items]
    if ann == "MAP":
        try:
            kv, k, v = map_layout(node)
        except DremelError:
            ann = None
        else:
            out = []
            for item in raw[kv["name"]]:
                key = raw_to_logical(k, item[k["name"]])
                val = raw_to_logical(v, item[v["name"]]) if v is not None else NULL
                out.append((key, val))
            return out
    return dict((c["name"], raw_to_logical(c, raw[c["name"]])) for c in node["children"])


def assemble(schema_desc, streams):
    """Per-leaf level streams -> list of logical rows (NULL for nulls)."""
    return [raw_to_logical(schema_desc, r) for r in assemble_raw(schema_desc, streams)]


# ---------------------------------------------------------------------------
# schema constructors for the common shapes
# ---------------------------------------------------------------------------

def list_schema(name, element, list_optional=True, element_optional=True, layout="3level"):
    """Build a LIST column node.

    ``element``: leaf description without name/repetition, e.g.
    {"physical": "INT32"}.  layout:
      '3level'            optional group name (LIST) { repeated group list { <opt|req> element } }
      '2level_primitive'  group name (LIST) { repeated <type> element }          (elements required)
      '2level_array'      group name (LIST) { repeated group array { required <type> item } }
      '2level_tuple'      group name (LIST) { repeated group <name>_tuple { required <type> item } }
    In the last two layouts the specification makes the *group* the element, so
    the logical elements are dicts {"item": value}.
    """
    rep = "OPTIONAL" if list_optional else "REQUIRED"
    el = dict(element)
    if layout == "3level":
        el.update(name="element", repetition="OPTIONAL" if element_optional else "REQUIRED")
        inner = {"name": "list", "repetition": "REPEATED", "children": [el]}
    elif layout == "2level_primitive":
        el.update(name="element", repetition="REPEATED")
        inner = el
    elif layout in ("2level_array", "2level_tuple"):
        el.update(name="item", repetition="REQUIRED")
        inner = {"name": "array" if layout == "2level_array" else name + "_tuple",
                 "repetition": "REPEATED", "children": [el]}
    else:
        raise ValueError(layout)
    return {"name": name, "repetition": rep, "converted": "LIST", "children": [inner]}


def map_schema(name, key, value, map_optional=True, value_optional=True, legacy=False):
    """MAP column: group name (MAP) { repeated group key_value { required key; <opt|req> value } }.
    ``legacy``: the repeated group is called 'map' and annotated MAP_KEY_VALUE."""
    k = dict(key)
    k.update(name="key", repetition="REQUIRED")
    v = dict(value)
    v.update(name="value", repetition="OPTIONAL" if value_optional else "REQUIRED")
    kv = {"name": "map" if legacy else "key_value", "repetition": "REPEATED", "children": [k, v]}
    if legacy:
        kv["converted"] = "MAP_KEY_VALUE"
    return {"name": name, "repetition": "OPTIONAL" if map_optional else "REQUIRED",
            "converted": "MAP", "children": [kv]}
