"""Spec-level Parquet *writer* driven by a JSON-able plan ("another writer").

    data            = write(plan)
    data, model     = write_with_model(plan)      # model.table, model.features

The plan describes *how* to encode as well as *what*.  Everything in it is
plain JSON data (dict / list / str / int / float / bool / None).  The writer is
lenient about the encoding knobs (run plans, page sizes, bit widths are clipped
or completed so that the file is always valid) and strict about the data (a
null in a REQUIRED field is an error -> ``PlanError``).

PLAN
====
{
  "schema": [node, ...],            top level fields, in order (see NODES)
  "row_groups": [rowgroup, ...],    may be empty
  "created_by": str | None,         default "refpq-writer version 1.0.0"; None = field absent
  "version": int,                   FileMetaData.version, default 1
  "kv": [[key, value], ...] | None, key/value: str, {"hex": ...} or (value only) None.
                                    pandas metadata: pass ["pandas", "<json text>"] here.
  "column_orders": bool,            default False; True = one TYPE_ORDER per leaf
  "root_name": str,                 default "schema"
  "rg_optional_fields": bool,       default False; True = RowGroup.file_offset,
                                    total_compressed_size and ordinal are written
  "file_offset_mode": "start" | "zero" | "after"
                                    ColumnChunk.file_offset = first page of the chunk (default),
                                    0, or the offset of a ColumnMetaData copy written
                                    right after the chunk (old parquet-mr/Arrow habit)
}

NODES (same dicts as refpq.dremel)
----------------------------------
leaf : {"name", "repetition": "REQUIRED"|"OPTIONAL"|"REPEATED",
        "physical": "BOOLEAN"|"INT32"|"INT64"|"INT96"|"FLOAT"|"DOUBLE"|
                    "BYTE_ARRAY"|"FIXED_LEN_BYTE_ARRAY",
        "type_length": int          (FIXED_LEN_BYTE_ARRAY),
        "converted": ConvertedType name, e.g. "UTF8", "UINT_16", "DATE",
                    "TIMESTAMP_MICROS", "DECIMAL", "JSON", "ENUM" ...   (optional)
        "logical": LogicalType union as a dict keyed by field name, e.g.
                    {"TIMESTAMP": {"isAdjustedToUTC": true, "unit": {"NANOS": {}}}},
                    {"INTEGER": {"bitWidth": 8, "isSigned": false}}, {"STRING": {}},
                    {"DECIMAL": {"scale": 2, "precision": 9}}            (optional)
        "scale", "precision": int   (DECIMAL; SchemaElement fields)
        "field_id": int}            (optional)
group: {"name", "repetition", "children": [node...], "converted": "LIST"|"MAP"|
        "MAP_KEY_VALUE" (optional), "logical": {"LIST": {}} | {"MAP": {}} (optional)}
``dremel.list_schema`` / ``dremel.map_schema`` build the usual LIST / MAP shapes
(3-level standard, legacy 2-level, legacy MAP_KEY_VALUE).

ROW GROUPS
----------
rowgroup = {
  "data":   {top level field name: [row, row, ...]},  every field, equal lengths
  "chunks": {"dotted.leaf.path": chunkplan, ...}      optional; missing = defaults
}
A *row* of a flat column is a value or None (null).  Rows of nested columns are
logical values: LIST -> python list (None = null list, [] = empty, None items =
null elements), MAP -> list of [key, value] pairs (or a dict), plain group ->
dict by child name, bare REPEATED field -> list.  In the legacy layouts
'2level_array' / '2level_tuple' the element is, per specification, the
one-field group itself, i.e. {"item": value}.

VALUES (logical domain; identical to what refpq.reader returns)
---------------------------------------------------------------
BOOLEAN                 bool
INT32 / INT64           int.  With an unsigned annotation (UINT_8..UINT_64 or
                        INTEGER isSigned=false) give the *unsigned* value; it is
                        stored modulo 2**32 / 2**64.  DATE / TIME_* / TIMESTAMP_*
                        are integer ticks.  DECIMAL is the unscaled integer.
INT96                   int nanoseconds since the Unix epoch (stored as Julian
                        day + nanos of day), or {"hex": 24 hex digits} raw.
FLOAT / DOUBLE          float (NaN, inf, -0.0 fine) or {"hex": little-endian
                        IEEE bytes} to choose the exact bit pattern.  FLOAT
                        values are rounded to float32; the model holds the
                        rounded value.
BYTE_ARRAY / FIXED_LEN_BYTE_ARRAY
                        {"hex": "..."} (bytes) or str (stored as UTF-8).  The
                        model holds str when the column is annotated
                        UTF8/STRING, JSON or ENUM and the bytes are valid UTF-8,
                        bytes otherwise.  With DECIMAL: give the unscaled int
                        (big-endian two's complement, minimal length for
                        BYTE_ARRAY, type_length bytes for FIXED).

CHUNK PLAN
----------
{
  "codec": "UNCOMPRESSED" (default) | "SNAPPY" | "GZIP" | "ZSTD" | "LZ4_RAW" |
           "LZ4" (deprecated id 5, written as a bare LZ4 block) | "BROTLI" |
           "LZO" (id 3: *unsupported* - page bytes are stored unchanged),
  "dictionary": None | "auto" | [value, ...]
        None   -> a dictionary page is written only if some page uses a
                  dictionary encoding (then like "auto")
        "auto" -> distinct values of the dictionary encoded pages, in order of
                  first appearance
        list   -> exactly these entries first (unused and duplicate entries
                  allowed); values that are needed but missing are appended
  "dict_page_encoding": None | "PLAIN" | "PLAIN_DICTIONARY"
        encoding named in the dictionary page header; default PLAIN_DICTIONARY
        if any data page uses PLAIN_DICTIONARY, else PLAIN
  "dict_is_sorted": None | bool     DictionaryPageHeader.is_sorted (not verified)
  "pages": [pageplan, ...]          default [{}] = one v1 PLAIN page
  "stats": None | False | True | {"fields": [...], "override": {...}}
        True = {"fields": ["min_value", "max_value", "null_count"]}.
        fields from "min", "max", "min_value", "max_value", "null_count",
        "distinct_count".  Values are computed by the writer in the type
        defined order (signed / unsigned ints, IEEE order without NaN and with
        -0.0 / +0.0 per spec, unsigned bytewise for binary, numeric for
        DECIMAL, INT96 by time); min/max fields are left out when the chunk has
        no comparable value.  "override": {field: {"hex": ...} | int} replaces
        the computed raw bytes / count.
  "encoding_stats": bool            default True
  "crc": bool                       default False; page CRC32 fields
}

PAGE PLAN
---------
{
  "n": int | None      number of *slots* (flat) / level entries (nested) in this
                       page; None or missing = all that remain.  Counts are
                       clipped; if the pages end early the last page absorbs
                       the remainder; pages left with nothing are dropped (an
                       empty chunk gets one page with zero values).  v2 pages
                       of repeated columns are extended to the next row start.
  "version": 1 | 2     default 1
  "encoding": "PLAIN" (default) | "PLAIN_DICTIONARY" | "RLE_DICTIONARY" |
              "RLE" (BOOLEAN; 4-byte length prefix in v1 and v2) |
              "DELTA_BINARY_PACKED" (INT32/INT64) |
              "DELTA_LENGTH_BYTE_ARRAY" (BYTE_ARRAY) |
              "DELTA_BYTE_ARRAY" (BYTE_ARRAY, FIXED_LEN_BYTE_ARRAY) |
              "BYTE_STREAM_SPLIT" (FLOAT, DOUBLE, INT32, INT64, FIXED_LEN_BYTE_ARRAY)
        A PLAIN page after dictionary pages is the "fallback" case.
  "bit_width": int | None    dictionary index width; raised to the minimum the
                       page needs, capped at 32; None = width of (dictionary
                       size - 1)
  "index_runs" / "value_runs" / "def_runs" / "rep_runs": run plan | None
        run plan = [["rle", n] | ["bp", n_groups], ...] for dictionary indices,
        RLE boolean values, definition and repetition levels.  Applied by
        ``encodings.plan_runs`` (clipped to the data, remainder automatic).
  "level_encoding": "RLE" (default) | "BIT_PACKED" (v1 only, deprecated MSB
        first packing, no length prefix)
  "is_compressed": None | true | false     v2 only: absent / true / false.
        false stores the values uncompressed whatever the codec
  "delta": {"block_size": 128, "miniblocks": 4}
  "truncate_last_group": bool   default False; Impala style: a final bit-packed
        run of indices / boolean values / v1 levels is cut after the last real
        value instead of being padded to a whole group
  "trailing_bytes": int         default 0; zero bytes appended after the values
        of a v1 page (inside the page)
}

MODEL
=====
``model.table``    {top level name: [row...]} - flat columns: logical values
                   with None for null; nested columns: python lists, (key,
                   value) tuples for MAP entries, dicts for groups.
``model.features`` dict: "encodings", "page_versions", "codecs",
                   "level_encodings" (sets as sorted lists), "index_bit_widths",
                   "max_dict_bit_width", "rle_run_ge2_in_indices",
                   "bp_run_in_indices", "bp_width_not_8_16_32", "delta_widths",
                   "pages_per_chunk", "max_pages_per_chunk", "num_row_groups",
                   "has_nulls", "compressed_v2_page", "fallback", "nested",
                   "page_split_inside_row", "null_elements", "empty_lists",
                   "uses" (e.g. "codec:LZO", "levels:BIT_PACKED",
                   "encoding:DELTA_BYTE_ARRAY", "dict:BOOLEAN" (dictionary
                   encoded booleans: legal but not produced by mainstream
                   writers), "truncate_last_group", "trailing_bytes").
``model.leaves``   [(path tuple, leaf node, max_def, max_rep)]
"""
import struct
import zlib

from . import compact, codecs, encodings as enc, idl as _idl
from . import dremel


class PlanError(Exception):
    pass


class Model(object):
    def __init__(self):
        self.table = {}
        self.features = {}
        self.leaves = []

    def __repr__(self):
        return "Model(table=%r, features=%r)" % (self.table, self.features)


DEFAULT_CREATED_BY = "refpq-writer version 1.0.0"
_NS_PER_DAY = 86400 * 10 ** 9
_JULIAN_EPOCH_DAY = 2440588
_TEXT_CONVERTED = ("UTF8", "JSON", "ENUM")


# ------------------------------------------------------------------ value conversion

def _unhex(v):
    return bytes.fromhex(v["hex"])


def _is_unsigned(node):
    c = node.get("converted")
    if c and c.startswith("UINT_"):
        return True
    lg = node.get("logical")
    if isinstance(lg, dict) and "INTEGER" in lg and not lg["INTEGER"].get("isSigned", True):
        return True
    return False


def _is_decimal(node):
    lg = node.get("logical")
    return node.get("converted") == "DECIMAL" or (isinstance(lg, dict) and "DECIMAL" in lg)


def _is_text(node):
    lg = node.get("logical")
    if node.get("converted") in _TEXT_CONVERTED:
        return True
    return isinstance(lg, dict) and any(k in lg for k in ("STRING", "JSON", "ENUM"))


def _wrap(v, bits):
    v &= (1 << bits) - 1
    return v - (1 << bits) if v >> (bits - 1) else v


def to_physical(node, v):
    """Plan value -> physical value as used by refpq.encodings (floats as raw bytes)."""
    ph = node["physical"]
    if ph == "BOOLEAN":
        if not isinstance(v, bool):
            raise PlanError("BOOLEAN column %r got %r" % (node["name"], v))
        return v
    if ph in ("INT32", "INT64"):
        if isinstance(v, bool) or not isinstance(v, int):
            raise PlanError("%s column %r got %r" % (ph, node["name"], v))
        bits = 32 if ph == "INT32" else 64
        if _is_unsigned(node):
            if not 0 <= v < (1 << bits):
                raise PlanError("unsigned value %d does not fit %s" % (v, ph))
            return _wrap(v, bits)
        if not -(1 << (bits - 1)) <= v < (1 << (bits - 1)):
            raise PlanError("value %d does not fit %s" % (v, ph))
        return v
    if ph == "INT96":
        if isinstance(v, dict):
            b = _unhex(v)
            if len(b) != 12:
                raise PlanError("INT96 raw value must be 12 bytes")
            return b
        day, nanos = divmod(int(v), _NS_PER_DAY)
        return struct.pack("<qi", nanos, day + _JULIAN_EPOCH_DAY)
    if ph == "FLOAT":
        if isinstance(v, dict):
            b = _unhex(v)
            if len(b) != 4:
                raise PlanError("FLOAT raw value must be 4 bytes")
            return b
        try:
            return struct.pack("<f", v)
        except OverflowError:
            return struct.pack("<f", float("inf") if v > 0 else float("-inf"))
    if ph == "DOUBLE":
        if isinstance(v, dict):
            b = _unhex(v)
            if len(b) != 8:
                raise PlanError("DOUBLE raw value must be 8 bytes")
            return b
        return struct.pack("<d", v)
    if ph in ("BYTE_ARRAY", "FIXED_LEN_BYTE_ARRAY"):
        if isinstance(v, dict):
            b = _unhex(v)
        elif isinstance(v, str):
            b = v.encode("utf-8")
        elif isinstance(v, (bytes, bytearray)):
            b = bytes(v)
        elif isinstance(v, int) and not isinstance(v, bool) and _is_decimal(node):
            if ph == "FIXED_LEN_BYTE_ARRAY":
                try:
                    b = v.to_bytes(node["type_length"], "big", signed=True)
                except OverflowError:
                    raise PlanError("decimal %d does not fit %d bytes" % (v, node["type_length"]))
            else:
                n = 1
                while True:
                    try:
                        b = v.to_bytes(n, "big", signed=True)
                        break
                    except OverflowError:
                        n += 1
        else:
            raise PlanError("%s column %r got %r" % (ph, node["name"], v))
        if ph == "FIXED_LEN_BYTE_ARRAY" and len(b) != node.get("type_length"):
            raise PlanError("FIXED_LEN_BYTE_ARRAY(%r) column %r got %d bytes" % (node.get("type_length"), node["name"], len(b)))
        return b
    raise PlanError("unknown physical type %r" % (ph,))


def to_expected(node, phys):
    """Physical value -> the logical python value a correct reader reports."""
    ph = node["physical"]
    if ph == "BOOLEAN":
        return phys
    if ph in ("INT32", "INT64"):
        if _is_unsigned(node):
            bits = 32 if ph == "INT32" else 64
            lg = node.get("logical")
            w = None
            c = node.get("converted")
            if c and c.startswith("UINT_"):
                w = int(c[5:])
            elif isinstance(lg, dict) and "INTEGER" in lg:
                w = lg["INTEGER"].get("bitWidth")
            return phys % (1 << (w if w in (8, 16, 32, 64) else bits))
        return phys
    if ph == "INT96":
        nanos, day = struct.unpack("<qi", phys)
        return (day - _JULIAN_EPOCH_DAY) * _NS_PER_DAY + nanos
    if ph == "FLOAT":
        return struct.unpack("<f", phys)[0]
    if ph == "DOUBLE":
        return struct.unpack("<d", phys)[0]
    if _is_decimal(node):
        return int.from_bytes(phys, "big", signed=True)
    if _is_text(node):
        try:
            return phys.decode("utf-8")
        except UnicodeDecodeError:
            return phys
    return phys


def _expected_tree(node, value):
    """Logical plan value of a (possibly nested) node -> model value."""
    if value is None:
        return None
    if node.get("repetition") == "REPEATED":
        return [_expected_content(node, v) for v in value]
    return _expected_content(node, value)


def _expected_content(node, value):
    if dremel.is_leaf(node):
        return to_expected(node, to_physical(node, value))
    ann = dremel._annotation(node)
    if ann == "LIST":
        rep, mode = dremel.list_layout(node)
        if mode == "repeated_is_element":
            return [_expected_content(rep, v) for v in value]
        return [_expected_tree(rep["children"][0], v) for v in value]
    if ann == "MAP":
        kv, k, v = dremel.map_layout(node)
        if isinstance(value, dict):
            value = list(value.items())
        return [(_expected_tree(k, a), _expected_tree(v, b) if v is not None else None) for a, b in value]
    return dict((c["name"], _expected_tree(c, value.get(c["name"]))) for c in node["children"])


# ------------------------------------------------------------------ statistics

def _stat_key(node):
    """physical value -> sort key in the column's type defined order; None when
    the value does not take part (NaN)."""
    ph = node["physical"]
    if ph == "BOOLEAN":
        return lambda v: int(v)
    if ph in ("INT32", "INT64"):
        if _is_unsigned(node):
            bits = 32 if ph == "INT32" else 64
            return lambda v: v % (1 << bits)
        return lambda v: v
    if ph == "FLOAT":
        def kf(v):
            x = struct.unpack("<f", v)[0]
            return None if x != x else x
        return kf
    if ph == "DOUBLE":
        def kd(v):
            x = struct.unpack("<d", v)[0]
            return None if x != x else x
        return kd
    if ph == "INT96":
        def k96(v):
            nanos, day = struct.unpack("<qi", v)
            return (day, nanos)
        return k96
    if _is_decimal(node):
        return lambda v: int.from_bytes(v, "big", signed=True)
    return lambda v: v


def _stat_bytes(node, phys):
    ph = node["physical"]
    if ph == "BOOLEAN":
        return b"\x01" if phys else b"\x00"
    if ph == "INT32":
        return struct.pack("<i", phys)
    if ph == "INT64":
        return struct.pack("<q", phys)
    return bytes(phys)


def _make_statistics(node, spec, phys_values, null_count):
    if spec is None or spec is False:
        return None
    if spec is True:
        spec = {"fields": ["min_value", "max_value", "null_count"]}
    fields = list(spec.get("fields") or [])
    override = spec.get("override") or {}
    st = {}
    keyf = _stat_key(node)
    best_lo = best_hi = None
    for v in phys_values:
        k = keyf(v)
        if k is None:
            continue
        if best_lo is None or k < best_lo[0]:
            best_lo = (k, v)
        if best_hi is None or k > best_hi[0]:
            best_hi = (k, v)
    lo = hi = None
    if best_lo is not None:
        lo, hi = best_lo[1], best_hi[1]
        if node["physical"] in ("FLOAT", "DOUBLE"):
            fmt = "<f" if node["physical"] == "FLOAT" else "<d"
            if struct.unpack(fmt, lo)[0] == 0.0:
                lo = struct.pack(fmt, -0.0)
            if struct.unpack(fmt, hi)[0] == 0.0:
                hi = struct.pack(fmt, 0.0)
    for f in fields:
        if f in ("min", "min_value") and lo is not None:
            st[f] = _stat_bytes(node, lo)
        elif f in ("max", "max_value") and hi is not None:
            st[f] = _stat_bytes(node, hi)
        elif f == "null_count":
            st[f] = null_count
        elif f == "distinct_count":
            st[f] = len(set(_dict_key(node, v) for v in phys_values))
        elif f not in ("min", "max", "min_value", "max_value"):
            raise PlanError("unknown statistics field %r" % (f,))
    for f, v in override.items():
        st[f] = _unhex(v) if isinstance(v, dict) else v
    return st


def _dict_key(node, phys):
    return phys


# ------------------------------------------------------------------ the writer

def write(plan):
    return write_with_model(plan)[0]


def write_with_model(plan):
    w = _Writer(plan)
    return w.run()


class _Writer(object):
    def __init__(self, plan):
        self.plan = plan
        self.idl = _idl.load()
        self.E = self.idl.enums["Encoding"]
        self.T = self.idl.enums["Type"]
        self.CT = self.idl.enums["ConvertedType"]
        self.out = bytearray()
        self.model = Model()
        f = self.feat = {
            "encodings": set(), "page_versions": set(), "codecs": set(), "level_encodings": set(),
            "index_bit_widths": set(), "max_dict_bit_width": None,
            "rle_run_ge2_in_indices": False, "bp_run_in_indices": False, "bp_width_not_8_16_32": False,
            "delta_widths": set(), "pages_per_chunk": [], "max_pages_per_chunk": 0,
            "num_row_groups": 0, "has_nulls": False, "compressed_v2_page": False, "fallback": False,
            "nested": False, "page_split_inside_row": False, "null_elements": False,
            "empty_lists": False, "uses": set(),
        }
        del f

    # ---------------------------------------------------------------- schema
    def schema_elements(self):
        plan = self.plan
        els = [{"name": plan.get("root_name", "schema"), "num_children": len(plan["schema"])}]

        def add(node):
            el = {"name": node["name"]}
            rep = node.get("repetition", "REQUIRED")
            el["repetition_type"] = {"REQUIRED": 0, "OPTIONAL": 1, "REPEATED": 2}[rep]
            if node.get("converted") is not None:
                el["converted_type"] = self.CT[node["converted"]]
            if node.get("logical") is not None:
                el["logicalType"] = node["logical"]
            if node.get("field_id") is not None:
                el["field_id"] = node["field_id"]
            if dremel.is_leaf(node):
                el["type"] = self.T[node["physical"]]
                if node.get("type_length") is not None:
                    el["type_length"] = node["type_length"]
                if node.get("scale") is not None:
                    el["scale"] = node["scale"]
                if node.get("precision") is not None:
                    el["precision"] = node["precision"]
                els.append(el)
            else:
                el["num_children"] = len(node["children"])
                els.append(el)
                for c in node["children"]:
                    add(c)

        for n in plan["schema"]:
            add(n)
        return els

    # ---------------------------------------------------------------- main
    def run(self):
        plan = self.plan
        schema = plan["schema"]
        names = [n["name"] for n in schema]
        if len(set(names)) != len(names):
            raise PlanError("duplicate top level names")
        leaves = []
        for n in schema:
            leaves.extend(dremel.leaves_of(n))
        self.model.leaves = leaves
        for n in schema:
            self.model.table[n["name"]] = []
            if not dremel.is_leaf(n) or n.get("repetition") == "REPEATED":
                self.feat["nested"] = True
        out = self.out
        out += b"PAR1"
        row_groups = []
        total_rows = 0
        for gi, rg in enumerate(plan.get("row_groups") or []):
            meta, nrows = self.write_row_group(gi, rg, schema)
            row_groups.append(meta)
            total_rows += nrows
        self.feat["num_row_groups"] = len(row_groups)
        fmd = {
            "version": plan.get("version", 1),
            "schema": self.schema_elements(),
            "num_rows": total_rows,
            "row_groups": row_groups,
        }
        kv = plan.get("kv")
        if kv is not None:
            items = []
            for k, v in kv:
                item = {"key": _unhex(k) if isinstance(k, dict) else k}
                if v is not None:
                    item["value"] = _unhex(v) if isinstance(v, dict) else v
                items.append(item)
            fmd["key_value_metadata"] = items
        cb = plan.get("created_by", DEFAULT_CREATED_BY)
        if cb is not None:
            fmd["created_by"] = cb
        if plan.get("column_orders"):
            fmd["column_orders"] = [{"TYPE_ORDER": {}} for _ in leaves]
        footer = compact.encode(fmd, "FileMetaData")
        out += footer
        out += struct.pack("<I", len(footer))
        out += b"PAR1"
        f = self.feat
        feats = {}
        for k, v in f.items():
            feats[k] = sorted(v) if isinstance(v, set) else v
        feats["max_pages_per_chunk"] = max(f["pages_per_chunk"]) if f["pages_per_chunk"] else 0
        feats["max_dict_bit_width"] = max(f["index_bit_widths"]) if f["index_bit_widths"] else None
        self.model.features = feats
        return bytes(out), self.model

    # ---------------------------------------------------------------- row group
    def write_row_group(self, gi, rg, schema):
        data = rg.get("data") or {}
        chunks = rg.get("chunks") or {}
        nrows = None
        for n in schema:
            if n["name"] not in data:
                raise PlanError("row group %d has no data for column %r" % (gi, n["name"]))
            ln = len(data[n["name"]])
            if nrows is None:
                nrows = ln
            elif ln != nrows:
                raise PlanError("row group %d: columns have different lengths" % gi)
        nrows = nrows or 0
        for key in chunks:
            if not any(".".join(p) == key for p, _, _, _ in self.model.leaves):
                raise PlanError("chunk plan for unknown leaf %r" % (key,))
        cols = []
        rg_start = len(self.out)
        tot_unc = tot_comp = 0
        for n in schema:
            rows = data[n["name"]]
            try:
                streams = dremel.shred(rows, n)
                self.model.table[n["name"]].extend(_expected_tree(n, r) for r in rows)
            except dremel.DremelError as e:
                raise PlanError(str(e))
            for path, leaf, max_def, max_rep in dremel.leaves_of(n):
                reps, defs, vals = streams[path]
                cplan = chunks.get(".".join(path)) or {}
                cc = self.write_chunk(path, leaf, max_def, max_rep, reps, defs, vals, cplan)
                cols.append(cc)
                tot_unc += cc["meta_data"]["total_uncompressed_size"]
                tot_comp += cc["meta_data"]["total_compressed_size"]
        meta = {"columns": cols, "total_byte_size": tot_unc, "num_rows": nrows}
        if self.plan.get("rg_optional_fields"):
            meta["file_offset"] = rg_start
            meta["total_compressed_size"] = tot_comp
            meta["ordinal"] = gi
        return meta, nrows

    # ---------------------------------------------------------------- chunk
    def split_pages(self, pages, reps, defs, max_rep):
        """-> list of (pageplan, start, stop) over the level entries."""
        total = len(defs)
        out = []
        pos = 0
        pages = list(pages) if pages else [{}]
        for i, pp in enumerate(pages):
            if pos >= total:
                break
            n = pp.get("n")
            last = i == len(pages) - 1
            if n is None or last:
                stop = total
            else:
                stop = min(total, pos + max(0, int(n)))
            if pp.get("version", 1) == 2 and max_rep > 0:
                while stop < total and reps[stop] != 0:
                    stop += 1
            if stop == pos:
                continue
            out.append((pp, pos, stop))
            pos = stop
        if not out:
            out.append((pages[0], 0, 0))
        # v2 page following a page that ended inside a row must still start a row:
        # merge forward so that every v2 page starts at a row boundary
        fixed = []
        for pp, a, b in out:
            if fixed and pp.get("version", 1) == 2 and max_rep > 0 and a < total and reps[a] != 0:
                ppp, pa, _pb = fixed[-1]
                # extend the previous page to the next row start
                s = a
                while s < b and reps[s] != 0:
                    s += 1
                fixed[-1] = (ppp, pa, s)
                if s < b:
                    fixed.append((pp, s, b))
            else:
                fixed.append((pp, a, b))
        return fixed

    def write_chunk(self, path, leaf, max_def, max_rep, reps, defs, vals, cplan):
        E = self.E
        out = self.out
        feat = self.feat
        codec = cplan.get("codec", "UNCOMPRESSED")
        if codec not in codecs.CODEC_IDS:
            raise PlanError("unknown codec %r" % (codec,))
        feat["codecs"].add(codec)
        if codec == "LZO":
            feat["uses"].add("codec:LZO")
        if codec == "LZ4":
            feat["uses"].add("codec:LZ4")
        phys = [to_physical(leaf, v) for v in vals]
        if max_rep == 0:
            reps = [0] * len(defs)
        nulls = sum(1 for d in defs if d < max_def)
        if nulls:
            feat["has_nulls"] = True
        if max_rep > 0:
            for r, d in zip(reps, defs):
                if d < max_def:
                    # which kind of "nothing" this entry stands for cannot be told from the
                    # level alone in general; the two flags are good enough for classification
                    if d == max_def - 1 and leaf.get("repetition") == "OPTIONAL":
                        feat["null_elements"] = True
                    else:
                        feat["empty_lists"] = True
        pages = self.split_pages(cplan.get("pages"), reps, defs, max_rep)
        # positions of values per page
        vstart = []
        k = 0
        counts = []
        for pp, a, b in pages:
            c = sum(1 for d in defs[a:b] if d == max_def)
            vstart.append(k)
            counts.append(c)
            k += c
        # ---- dictionary
        dict_spec = cplan.get("dictionary")
        uses_dict = [pp.get("encoding", "PLAIN") in ("PLAIN_DICTIONARY", "RLE_DICTIONARY") for pp, _, _ in pages]
        dict_values = None
        dict_index = None
        if isinstance(dict_spec, list) or dict_spec == "auto" or any(uses_dict):
            dict_values = []
            dict_index = {}
            if isinstance(dict_spec, list):
                for v in dict_spec:
                    pv = to_physical(leaf, v)
                    dict_values.append(pv)
                    dict_index.setdefault(pv, len(dict_values) - 1)
            for (pp, a, b), ud, s, c in zip(pages, uses_dict, vstart, counts):
                if ud:
                    for pv in phys[s:s + c]:
                        if pv not in dict_index:
                            dict_index[pv] = len(dict_values)
                            dict_values.append(pv)
            if not isinstance(dict_spec, list) and not any(uses_dict):
                dict_values = None
        chunk_start = len(out)
        total_unc = 0
        used_enc = set()
        enc_stats = {}
        dict_offset = None
        want_crc = bool(cplan.get("crc"))

        def emit_page(header, body, unc_size):
            nonlocal total_unc
            header["uncompressed_page_size"] = unc_size
            header["compressed_page_size"] = len(body)
            if want_crc:
                header["crc"] = _wrap(zlib.crc32(body) & 0xFFFFFFFF, 32)
            hb = compact.encode(header, "PageHeader")
            out.extend(hb)
            out.extend(body)
            total_unc += len(hb) + unc_size

        def compress(raw):
            if codec == "LZO":
                return raw
            return codecs.compress(codec, raw)

        if dict_values is not None:
            dpe = cplan.get("dict_page_encoding")
            if dpe is None:
                dpe = "PLAIN_DICTIONARY" if any(pp.get("encoding") == "PLAIN_DICTIONARY" for pp, _, _ in pages) else "PLAIN"
            raw = enc.plain_encode(leaf["physical"], dict_values, leaf.get("type_length"))
            dh = {"num_values": len(dict_values), "encoding": E[dpe]}
            if cplan.get("dict_is_sorted") is not None:
                dh["is_sorted"] = bool(cplan["dict_is_sorted"])
            dict_offset = len(out)
            emit_page({"type": 2, "dictionary_page_header": dh}, compress(raw), len(raw))
            used_enc.add(E[dpe])
            enc_stats[(2, E[dpe])] = 1
        data_offset = len(out)
        seen_dict_page = False
        npages = 0
        for (pp, a, b), s, c in zip(pages, vstart, counts):
            version = pp.get("version", 1)
            if version not in (1, 2):
                raise PlanError("page version %r" % (version,))
            ename = pp.get("encoding", "PLAIN")
            if ename not in E:
                raise PlanError("unknown encoding %r" % (ename,))
            feat["encodings"].add(ename)
            feat["page_versions"].add(version)
            if a > 0 and max_rep > 0 and a < len(reps) and reps[a] != 0:
                feat["page_split_inside_row"] = True
            if ename in ("PLAIN_DICTIONARY", "RLE_DICTIONARY"):
                seen_dict_page = True
                if leaf["physical"] == "BOOLEAN":
                    # legal by the letter of the format, but no mainstream writer does it
                    # and parquet-mr cannot read it
                    feat["uses"].add("dict:BOOLEAN")
            elif seen_dict_page and ename == "PLAIN":
                feat["fallback"] = True
            if ename not in ("PLAIN", "PLAIN_DICTIONARY", "RLE_DICTIONARY", "RLE", "DELTA_BINARY_PACKED"):
                feat["uses"].add("encoding:" + ename)
            vbytes = self.encode_values(leaf, ename, pp, phys[s:s + c], dict_values, dict_index)
            p_reps = reps[a:b]
            p_defs = defs[a:b]
            nv = b - a
            trunc = bool(pp.get("truncate_last_group"))
            if trunc:
                feat["uses"].add("truncate_last_group")
            lev_enc = pp.get("level_encoding", "RLE")
            if version == 1:
                parts = []
                for levels, mx, runs in ((p_reps, max_rep, pp.get("rep_runs")), (p_defs, max_def, pp.get("def_runs"))):
                    if mx == 0:
                        continue
                    width = enc.bit_width(mx)
                    if lev_enc == "BIT_PACKED":
                        parts.append(enc.encode_bitpacked_legacy(levels, width))
                        feat["uses"].add("levels:BIT_PACKED")
                        feat["level_encodings"].add("BIT_PACKED")
                        used_enc.add(E["BIT_PACKED"])
                    elif lev_enc == "RLE":
                        hb = enc.encode_hybrid(levels, width, _runs(runs), truncate_last_group=trunc)
                        parts.append(struct.pack("<I", len(hb)) + hb)
                        feat["level_encodings"].add("RLE")
                        used_enc.add(E["RLE"])
                    else:
                        raise PlanError("level encoding %r" % (lev_enc,))
                tb = int(pp.get("trailing_bytes") or 0)
                if tb:
                    feat["uses"].add("trailing_bytes")
                raw = b"".join(parts) + vbytes + b"\x00" * tb
                hdr = {"type": 0, "data_page_header": {
                    "num_values": nv, "encoding": E[ename],
                    "definition_level_encoding": E[lev_enc], "repetition_level_encoding": E[lev_enc]}}
                emit_page(hdr, compress(raw), len(raw))
                key = (0, E[ename])
            else:
                rb = enc.encode_hybrid(p_reps, enc.bit_width(max_rep), _runs(pp.get("rep_runs"))) if max_rep > 0 else b""
                db = enc.encode_hybrid(p_defs, enc.bit_width(max_def), _runs(pp.get("def_runs"))) if max_def > 0 else b""
                if max_rep > 0 or max_def > 0:
                    feat["level_encodings"].add("RLE")
                    used_enc.add(E["RLE"])
                ic = pp.get("is_compressed")
                do_compress = (ic is None or ic) and codec != "UNCOMPRESSED"
                stored = compress(vbytes) if do_compress else vbytes
                if do_compress and codec != "LZO":
                    feat["compressed_v2_page"] = True
                h2 = {"num_values": nv, "num_nulls": sum(1 for d in p_defs if d < max_def),
                      "num_rows": sum(1 for r in p_reps if r == 0), "encoding": E[ename],
                      "definition_levels_byte_length": len(db), "repetition_levels_byte_length": len(rb)}
                if ic is not None:
                    h2["is_compressed"] = bool(ic)
                emit_page({"type": 3, "data_page_header_v2": h2}, rb + db + stored, len(rb) + len(db) + len(vbytes))
                key = (3, E[ename])
            used_enc.add(E[ename])
            enc_stats[key] = enc_stats.get(key, 0) + 1
            npages += 1
        feat["pages_per_chunk"].append(npages)
        total_comp = len(out) - chunk_start
        md = {
            "type": self.T[leaf["physical"]],
            "encodings": sorted(used_enc),
            "path_in_schema": list(path),
            "codec": codecs.CODEC_IDS[codec],
            "num_values": len(defs),
            "total_uncompressed_size": total_unc,
            "total_compressed_size": total_comp,
            "data_page_offset": data_offset,
        }
        if dict_offset is not None:
            md["dictionary_page_offset"] = dict_offset
        stat_nulls = nulls
        if max_rep and cplan.get("null_count_mode") == "leaf_values":
            # the other convention met in practice for repeated columns: only null *values* are counted, not the level
            # entries of empty or null collections ("count of null value in the column" is all the format says)
            stat_nulls = sum(1 for d in defs if d == max_def - 1) if leaf.get("repetition") == "OPTIONAL" else 0
        st = _make_statistics(leaf, cplan.get("stats"), phys, stat_nulls)
        if st is not None:
            md["statistics"] = st
        if cplan.get("encoding_stats", True):
            md["encoding_stats"] = [{"page_type": k[0], "encoding": k[1], "count": v} for k, v in sorted(enc_stats.items())]
        mode = self.plan.get("file_offset_mode", "start")
        if mode == "start":
            fo = chunk_start
        elif mode == "zero":
            fo = 0
        elif mode == "after":
            fo = len(out)
            out.extend(compact.encode(md, "ColumnMetaData"))
        else:
            raise PlanError("file_offset_mode %r" % (mode,))
        return {"file_offset": fo, "meta_data": md}

    # ---------------------------------------------------------------- values
    def encode_values(self, leaf, ename, pp, phys, dict_values, dict_index):
        ph = leaf["physical"]
        feat = self.feat
        trunc = bool(pp.get("truncate_last_group"))
        if ename == "PLAIN":
            return enc.plain_encode(ph, phys, leaf.get("type_length"))
        if ename in ("PLAIN_DICTIONARY", "RLE_DICTIONARY"):
            idx = [dict_index[v] for v in phys]
            need = enc.bit_width(max(idx)) if idx else 0
            bw = pp.get("bit_width")
            if bw is None:
                bw = enc.bit_width(max(len(dict_values) - 1, 0))
            bw = max(need, min(32, int(bw)))
            info = {}
            body = enc.encode_hybrid(idx, bw, _runs(pp.get("index_runs")), truncate_last_group=trunc, info=info)
            feat["index_bit_widths"].add(bw)
            for r in info["runs"]:
                if r[0] == "rle" and r[1] >= 2:
                    feat["rle_run_ge2_in_indices"] = True
                if r[0] == "bp":
                    feat["bp_run_in_indices"] = True
                    if bw not in (8, 16, 32):
                        feat["bp_width_not_8_16_32"] = True
            return bytes([bw]) + body
        if ename == "RLE":
            if ph != "BOOLEAN":
                raise PlanError("RLE value encoding needs BOOLEAN, column is %s" % ph)
            body = enc.encode_hybrid([1 if v else 0 for v in phys], 1, _runs(pp.get("value_runs")), truncate_last_group=trunc)
            return struct.pack("<I", len(body)) + body
        d = pp.get("delta") or {}
        bs, mb = d.get("block_size", 128), d.get("miniblocks", 4)
        if ename == "DELTA_BINARY_PACKED":
            if ph not in ("INT32", "INT64"):
                raise PlanError("DELTA_BINARY_PACKED needs INT32/INT64, column is %s" % ph)
            info = {}
            try:
                body = enc.encode_delta(phys, bs, mb, ph == "INT64", info)
            except ValueError as e:
                raise PlanError(str(e))
            feat["delta_widths"].update(info.get("widths", []))
            return body
        if ename == "DELTA_LENGTH_BYTE_ARRAY":
            if ph != "BYTE_ARRAY":
                raise PlanError("DELTA_LENGTH_BYTE_ARRAY needs BYTE_ARRAY")
            return enc.encode_delta_length_byte_array(phys, bs, mb)
        if ename == "DELTA_BYTE_ARRAY":
            if ph not in ("BYTE_ARRAY", "FIXED_LEN_BYTE_ARRAY"):
                raise PlanError("DELTA_BYTE_ARRAY needs (FIXED_LEN_)BYTE_ARRAY")
            return enc.encode_delta_byte_array(phys, bs, mb)
        if ename == "BYTE_STREAM_SPLIT":
            widths = {"FLOAT": 4, "DOUBLE": 8, "INT32": 4, "INT64": 8, "FIXED_LEN_BYTE_ARRAY": leaf.get("type_length")}
            if ph not in widths:
                raise PlanError("BYTE_STREAM_SPLIT on %s" % ph)
            if ph == "INT32":
                raws = [struct.pack("<i", v) for v in phys]
            elif ph == "INT64":
                raws = [struct.pack("<q", v) for v in phys]
            else:
                raws = phys
            return enc.encode_byte_stream_split(raws, widths[ph])
        raise PlanError("encoding %s cannot be used for data pages" % ename)


def _runs(runs):
    if runs is None:
        return None
    return [(r[0], r[1]) for r in runs]
