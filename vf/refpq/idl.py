"""Regex-based parser for the vendored Apache ``parquet.thrift`` IDL.

Only the subset of the Thrift IDL grammar that parquet.thrift uses is handled:
``enum``, ``struct``, ``union``, ``typedef``, base types, ``list<T>``, ``set<T>``
(treated as a list for typing purposes, flagged separately) and references to
named types.  Comments (``/* */``, ``//``, ``#``) are stripped first.

Type representation (tuples so they are hashable and printable):
    ('bool',) ('byte',) ('i16',) ('i32',) ('i64',) ('double',) ('binary',)
    ('string',) ('list', elem) ('struct', Name) ('enum', Name)
Unions are reported as ``('struct', Name)`` with ``Name in idl.unions``.
"""
import os
import re
from collections import namedtuple

Field = namedtuple("Field", "id name req type default")

_BASE = {
    "bool": ("bool",),
    "byte": ("byte",),
    "i8": ("byte",),
    "i16": ("i16",),
    "i32": ("i32",),
    "i64": ("i64",),
    "double": ("double",),
    "binary": ("binary",),
    "string": ("string",),
}


class IDL(object):
    def __init__(self):
        self.structs = {}      # name -> [Field] in declaration order (includes unions)
        self.unions = set()
        self.enums = {}        # name -> {NAME: int}
        self.enum_names = {}   # name -> {int: NAME}
        self.typedefs = {}     # name -> type text
        self.order = []        # struct/union names in declaration order
        self._by_id = {}

    def fields_by_id(self, struct_name):
        m = self._by_id.get(struct_name)
        if m is None:
            m = dict((f.id, f) for f in self.structs[struct_name])
            self._by_id[struct_name] = m
        return m

    def field(self, struct_name, field_name):
        for f in self.structs[struct_name]:
            if f.name == field_name:
                return f
        raise KeyError("%s.%s" % (struct_name, field_name))


def _strip_comments(text):
    text = re.sub(r"/\*.*?\*/", " ", text, flags=re.S)
    text = re.sub(r"//[^\n]*", " ", text)
    text = re.sub(r"(?m)^\s*#[^\n]*", " ", text)
    return text


def _resolve(idl, text, names):
    text = text.strip()
    m = re.match(r"^(list|set)\s*<(.*)>$", text, flags=re.S)
    if m:
        return ("list", _resolve(idl, m.group(2), names))
    if text in _BASE:
        return _BASE[text]
    if text in idl.typedefs:
        return _resolve(idl, idl.typedefs[text], names)
    if text in idl.enums:
        return ("enum", text)
    if text in names:
        return ("struct", text)
    raise ValueError("IDL: unknown type %r" % (text,))


_FIELD_RE = re.compile(
    r"(\d+)\s*:\s*(?:(required|optional)\s+)?"        # id, requiredness
    r"((?:list|set)\s*<[^;,\n]*>|[A-Za-z_][A-Za-z_0-9.]*)\s+"  # type
    r"([A-Za-z_][A-Za-z_0-9]*)"                        # name
    r"(?:\s*=\s*([^;,\n]+?))?\s*(?:[;,]|\n|$)"         # default
)


def parse(text):
    idl = IDL()
    text = _strip_comments(text)
    for m in re.finditer(r"\btypedef\s+(\S+)\s+([A-Za-z_][A-Za-z_0-9]*)", text):
        idl.typedefs[m.group(2)] = m.group(1)
    for m in re.finditer(r"\benum\s+([A-Za-z_][A-Za-z_0-9]*)\s*\{(.*?)\}", text, flags=re.S):
        name, body = m.group(1), m.group(2)
        vals = {}
        nxt = 0
        for em in re.finditer(r"([A-Za-z_][A-Za-z_0-9]*)\s*(?:=\s*(-?\d+))?\s*[;,]?", body):
            if em.group(2) is not None:
                nxt = int(em.group(2))
            vals[em.group(1)] = nxt
            nxt += 1
        idl.enums[name] = vals
        idl.enum_names[name] = dict((v, k) for k, v in vals.items())
    bodies = []
    for m in re.finditer(r"\b(struct|union)\s+([A-Za-z_][A-Za-z_0-9]*)\s*\{(.*?)\}", text, flags=re.S):
        kind, name, body = m.groups()
        bodies.append((kind, name, body))
        idl.order.append(name)
        if kind == "union":
            idl.unions.add(name)
    names = set(n for _, n, _ in bodies)
    for kind, name, body in bodies:
        fields = []
        for fm in _FIELD_RE.finditer(body):
            fid, req, ftype, fname, default = fm.groups()
            if req is None:
                req = "optional" if kind == "union" else "default"
            fields.append(Field(int(fid), fname, req, _resolve(idl, ftype, names),
                                default.strip() if default else None))
        ids = [f.id for f in fields]
        if len(set(ids)) != len(ids):
            raise ValueError("IDL: duplicate field ids in %s" % name)
        idl.structs[name] = fields
    return idl


_CACHE = {}


def load(path=None):
    """Parse (once) the vendored parquet.thrift next to this module."""
    if path is None:
        path = os.path.join(os.path.dirname(os.path.abspath(__file__)), "parquet.thrift")
    if path not in _CACHE:
        with open(path, "r", encoding="utf-8") as f:
            _CACHE[path] = parse(f.read())
    return _CACHE[path]


def type_name(t):
    """Human readable type text, e.g. list<i32>."""
    if t[0] == "list":
        return "list<%s>" % type_name(t[1])
    if t[0] in ("struct", "enum"):
        return t[1]
    return t[0]
