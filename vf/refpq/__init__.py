"""refpq - an independent Apache Parquet reader/writer in pure Python, written
from the format specification and used as the oracle when testing fastparquet.
It never imports fastparquet.  See README.md."""
from . import idl, compact, encodings, codecs, dremel, reader, writer
from .compact import ThriftError, decode as thrift_decode, encode as thrift_encode
from .dremel import NULL, to_py, shred, assemble, list_schema, map_schema
from .reader import read, ParquetData, Issue, Leaf, ReaderError, read_statistics
from .writer import write, write_with_model, PlanError
from .codecs import compress, decompress, CODEC_IDS

__all__ = [
    "idl", "compact", "encodings", "codecs", "dremel", "reader", "writer",
    "ThriftError", "thrift_decode", "thrift_encode",
    "NULL", "to_py", "shred", "assemble", "list_schema", "map_schema",
    "read", "ParquetData", "Issue", "Leaf", "ReaderError", "read_statistics",
    "write", "write_with_model", "PlanError",
    "compress", "decompress", "CODEC_IDS",
]
