"""Spec-level Parquet value encodings (parquet-format/Encodings.md).

Everything here is value-at-a-time and written for obviousness.

Physical value domain used by the PLAIN functions:
    BOOLEAN  -> bool
    INT32/64 -> int (signed two's complement range of the type)
    INT96    -> bytes of length 12 (raw)
    FLOAT    -> float, or bytes of length 4 (raw IEEE bits, to carry NaN payloads)
    DOUBLE   -> float, or bytes of length 8
    BYTE_ARRAY / FIXED_LEN_BYTE_ARRAY -> bytes

Tolerated deviations are counted in the module level ``TOLERANCES`` dict and,
when an ``info`` dict is passed, also in ``info`` (same keys).
"""
import struct

from .compact import read_uvarint, uvarint, zigzag, unzigzag, ThriftError


class DecodeError(Exception):
    pass


TOLERANCES = {}


def _tol(name, info):
    TOLERANCES[name] = TOLERANCES.get(name, 0) + 1
    if info is not None:
        info[name] = info.get(name, 0) + 1


def reset_tolerances():
    TOLERANCES.clear()


def bit_width(max_value):
    """Minimal number of bits able to represent ``max_value`` (>= 0)."""
    return int(max_value).bit_length()


def _uv(buf, pos, end):
    try:
        v, p = read_uvarint(buf, pos)
    except ThriftError as e:
        raise DecodeError(str(e))
    if p > end:
        raise DecodeError("varint at %d crosses the end of the data (%d)" % (pos, end))
    return v, p


# ====================================================================== PLAIN

_FIXED = {"INT32": 4, "INT64": 8, "INT96": 12, "FLOAT": 4, "DOUBLE": 8}


def plain_encode(physical, values, type_length=None):
    out = bytearray()
    if physical == "BOOLEAN":
        return pack_bits([1 if v else 0 for v in values], 1)
    if physical == "INT32":
        for v in values:
            out += struct.pack("<i", v)
    elif physical == "INT64":
        for v in values:
            out += struct.pack("<q", v)
    elif physical == "INT96":
        for v in values:
            if len(v) != 12:
                raise ValueError("INT96 value must be 12 bytes")
            out += v
    elif physical == "FLOAT":
        for v in values:
            out += v if isinstance(v, (bytes, bytearray)) else struct.pack("<f", v)
    elif physical == "DOUBLE":
        for v in values:
            out += v if isinstance(v, (bytes, bytearray)) else struct.pack("<d", v)
    elif physical == "BYTE_ARRAY":
        for v in values:
            out += struct.pack("<I", len(v))
            out += v
    elif physical == "FIXED_LEN_BYTE_ARRAY":
        for v in values:
            if len(v) != type_length:
                raise ValueError("FIXED_LEN_BYTE_ARRAY value of length %d, type_length %r" % (len(v), type_length))
            out += v
    else:
        raise ValueError(physical)
    return bytes(out)


def plain_decode(physical, buf, pos, end, count, type_length=None, raw_float=False):
    """Decode ``count`` PLAIN values from buf[pos:end] -> (values, new pos)."""
    if physical == "BOOLEAN":
        nbytes = (count + 7) // 8
        if pos + nbytes > end:
            raise DecodeError("PLAIN BOOLEAN: need %d bytes, have %d" % (nbytes, end - pos))
        vals = unpack_bits(buf, pos, 1, count)
        return [bool(v) for v in vals], pos + nbytes
    if physical in _FIXED or physical == "FIXED_LEN_BYTE_ARRAY":
        if physical == "FIXED_LEN_BYTE_ARRAY":
            if type_length is None or type_length < 0:
                raise DecodeError("FIXED_LEN_BYTE_ARRAY without type_length")
            w = type_length
        else:
            w = _FIXED[physical]
        if pos + w * count > end:
            raise DecodeError("PLAIN %s: need %d bytes for %d values, have %d" % (physical, w * count, count, end - pos))
        out = []
        for i in range(count):
            raw = bytes(buf[pos:pos + w])
            pos += w
            if physical == "INT32":
                out.append(struct.unpack("<i", raw)[0])
            elif physical == "INT64":
                out.append(struct.unpack("<q", raw)[0])
            elif physical == "FLOAT" and not raw_float:
                out.append(struct.unpack("<f", raw)[0])
            elif physical == "DOUBLE" and not raw_float:
                out.append(struct.unpack("<d", raw)[0])
            else:
                out.append(raw)
        return out, pos
    if physical == "BYTE_ARRAY":
        out = []
        for i in range(count):
            if pos + 4 > end:
                raise DecodeError("PLAIN BYTE_ARRAY: length prefix of value %d crosses end" % i)
            ln = struct.unpack_from("<I", buf, pos)[0]
            pos += 4
            if pos + ln > end:
                raise DecodeError("PLAIN BYTE_ARRAY: value %d of length %d crosses end" % (i, ln))
            out.append(bytes(buf[pos:pos + ln]))
            pos += ln
        return out, pos
    raise ValueError(physical)


# ====================================================================== bit packing (LSB first)

def pack_bits(values, width):
    """Pack values LSB-first at ``width`` bits each; pad the last byte with 0."""
    acc = 0
    nbits = 0
    mask = (1 << width) - 1
    for v in values:
        if v < 0 or v > mask:
            raise ValueError("value %d does not fit in %d bits" % (v, width))
        acc |= v << nbits
        nbits += width
    return acc.to_bytes((nbits + 7) // 8, "little")


def unpack_bits(buf, pos, width, count):
    """Read ``count`` LSB-first packed values; needs ceil(count*width/8) bytes."""
    nbytes = (count * width + 7) // 8
    if pos + nbytes > len(buf):
        raise DecodeError("bit-unpack: need %d bytes at %d, buffer has %d" % (nbytes, pos, len(buf) - pos))
    acc = int.from_bytes(buf[pos:pos + nbytes], "little")
    mask = (1 << width) - 1
    out = []
    for i in range(count):
        out.append((acc >> (i * width)) & mask)
    return out


# ====================================================================== RLE / bit-packed hybrid

def plan_runs(values, runs=None):
    """Normalise a run plan against the values.

    ``runs`` items: ("rle", n) or ("bp", n_groups).  The plan is applied while
    values remain and is made valid instead of rejected:
      * an "rle" run is clipped to the remaining values and to the prefix of
        equal values (n <= 0 is skipped);
      * a "bp" run of g groups takes 8*g values; if fewer remain it becomes the
        final run and is padded with zeros;
      * values left over when the plan is exhausted use the automatic strategy.
    Returns a list of ("rle", n, value) / ("bp", n_groups, n_real_values).
    """
    n = len(values)
    out = []
    i = 0
    if runs:
        for r in runs:
            if i >= n:
                break
            kind, cnt = r[0], int(r[1])
            if cnt <= 0:
                continue
            if kind == "rle":
                v = values[i]
                k = 0
                while k < cnt and i + k < n and values[i + k] == v:
                    k += 1
                out.append(("rle", k, v))
                i += k
            elif kind == "bp":
                take = min(8 * cnt, n - i)
                groups = (take + 7) // 8
                out.append(("bp", groups, take))
                i += take
            else:
                raise ValueError("bad run kind %r" % (kind,))
    # automatic strategy for the remainder
    pending = 0  # number of values waiting for a bit-packed run, starting at i - pending

    def flush():
        if pending:
            out.append(("bp", (pending + 7) // 8, pending))

    while i < n:
        j = i
        while j < n and values[j] == values[i]:
            j += 1
        length = j - i
        if length >= 8:
            need = (8 - pending % 8) % 8
            if need:
                pending += need
                i += need
                continue
            flush()
            pending = 0
            out.append(("rle", length, values[i]))
            i = j
        else:
            pending += length
            i = j
    flush()
    return out


def encode_hybrid(values, bit_width, runs=None, truncate_last_group=False, info=None):
    """RLE/bit-packed hybrid encoding (no length prefix, no width byte).

    ``truncate_last_group``: Impala style - the final bit-packed run is cut to
    ceil(n_real_values * bit_width / 8) bytes although its header declares
    whole groups of 8.
    ``info``: optional dict, receives ``info['runs']`` = the normalised plan.
    """
    if not 0 <= bit_width <= 32:
        raise ValueError("hybrid bit width %d" % bit_width)
    values = list(values)
    actual = plan_runs(values, runs)
    if info is not None:
        info["runs"] = actual
    out = bytearray()
    vbytes = (bit_width + 7) // 8
    mask = (1 << bit_width) - 1
    i = 0
    for idx, r in enumerate(actual):
        if r[0] == "rle":
            _, n, v = r
            if v < 0 or v > mask:
                raise ValueError("value %d does not fit in %d bits" % (v, bit_width))
            out += uvarint(n << 1)
            out += int(v).to_bytes(vbytes, "little")
            i += n
        else:
            _, groups, real = r
            chunk = values[i:i + real]
            i += real
            last = idx == len(actual) - 1
            if real != groups * 8 and not last:
                raise ValueError("padded bit-packed run before the end")
            out += uvarint((groups << 1) | 1)
            if truncate_last_group and last:
                out += pack_bits(chunk, bit_width)
            else:
                out += pack_bits(chunk + [0] * (groups * 8 - real), bit_width)
    if i != len(values):
        raise AssertionError("run plan does not cover the values")
    return bytes(out)


def decode_hybrid(buf, pos, end, bit_width, count, info=None):
    """Decode ``count`` values of the hybrid encoding from buf[pos:end].

    Returns (values, pos) where pos is just after the last run consumed.
    Tolerances (counted): 'bitpacked_overdeclared' (final bit-packed run holds
    more values than needed), 'bitpacked_truncated_padding' (final bit-packed
    run's padding bytes are cut off by ``end``), 'rle_overdeclared' (final RLE
    run longer than needed), 'empty_run' (run of zero values).
    ``info['runs']`` receives the runs seen as ("rle", n, value) / ("bp", groups).
    """
    if bit_width < 0 or bit_width > 64:
        raise DecodeError("hybrid bit width %d" % bit_width)
    if end > len(buf):
        raise DecodeError("hybrid: end %d beyond buffer %d" % (end, len(buf)))
    out = []
    vbytes = (bit_width + 7) // 8
    runs = [] if info is not None else None
    while len(out) < count:
        if pos >= end:
            raise DecodeError("hybrid: data exhausted after %d of %d values" % (len(out), count))
        header, pos = _uv(buf, pos, end)
        need = count - len(out)
        if header & 1:
            groups = header >> 1
            nvals = groups * 8
            nbytes = groups * bit_width
            if runs is not None:
                runs.append(("bp", groups))
            if nvals == 0:
                _tol("empty_run", info)
                continue
            take = min(nvals, need)
            if pos + nbytes > end:
                min_bytes = (take * bit_width + 7) // 8
                if nvals >= need and pos + min_bytes <= end:
                    _tol("bitpacked_truncated_padding", info)
                    out.extend(unpack_bits(buf, pos, bit_width, take))
                    pos = end
                    break
                raise DecodeError("hybrid: bit-packed run of %d groups at %d crosses end %d" % (groups, pos, end))
            out.extend(unpack_bits(buf, pos, bit_width, take))
            pos += nbytes
            if nvals - need >= 8:
                # whole surplus groups, not merely padding of the last group
                _tol("bitpacked_overdeclared", info)
        else:
            n = header >> 1
            if pos + vbytes > end:
                raise DecodeError("hybrid: RLE value at %d crosses end %d" % (pos, end))
            v = int.from_bytes(buf[pos:pos + vbytes], "little")
            pos += vbytes
            if runs is not None:
                runs.append(("rle", n, v))
            if bit_width < 64 and v >> bit_width:
                raise DecodeError("hybrid: RLE value %d wider than %d bits" % (v, bit_width))
            if n == 0:
                _tol("empty_run", info)
                continue
            if n > need:
                _tol("rle_overdeclared", info)
                n = need
            out.extend([v] * n)
    if runs is not None:
        info.setdefault("runs", []).extend(runs)
    return out, pos


# ====================================================================== legacy BIT_PACKED (MSB first)

def encode_bitpacked_legacy(values, bit_width):
    """Deprecated BIT_PACKED level encoding: values back to back, most
    significant bit first, padded with zero bits to a whole byte."""
    acc = 0
    nbits = 0
    for v in values:
        if v < 0 or v >> bit_width:
            raise ValueError("value %d does not fit in %d bits" % (v, bit_width))
        acc = (acc << bit_width) | v
        nbits += bit_width
    pad = (-nbits) % 8
    acc <<= pad
    return acc.to_bytes((nbits + pad) // 8, "big")


def decode_bitpacked_legacy(buf, pos, end, bit_width, count):
    nbytes = (count * bit_width + 7) // 8
    if pos + nbytes > end:
        raise DecodeError("BIT_PACKED: need %d bytes, have %d" % (nbytes, end - pos))
    acc = int.from_bytes(buf[pos:pos + nbytes], "big")
    total = nbytes * 8
    mask = (1 << bit_width) - 1
    out = []
    for i in range(count):
        shift = total - (i + 1) * bit_width
        out.append((acc >> shift) & mask)
    return out, pos + nbytes


# ====================================================================== DELTA_BINARY_PACKED

def _wrap_signed(v, bits):
    v &= (1 << bits) - 1
    if v >> (bits - 1):
        v -= 1 << bits
    return v


def encode_delta(values, block_size=128, miniblocks=4, is64=True, info=None, unused_width=0):
    """DELTA_BINARY_PACKED.

    header: <block size> <miniblocks per block> <total count> <first value zz>
    block : <min delta zz> <bit width byte> * miniblocks, then the miniblocks.
    Arithmetic wraps in 64 bits (``is64``) or 32 bits.  The bit width of a
    miniblock is the minimum for max(delta - min_delta) over its real values;
    miniblocks that hold no value at all get width byte 0 and no data.
    ``info['widths']`` receives the widths of the miniblocks that hold data.
    """
    if block_size <= 0 or block_size % 128:
        raise ValueError("block size must be a positive multiple of 128")
    if miniblocks <= 0 or block_size % miniblocks or (block_size // miniblocks) % 32:
        raise ValueError("values per miniblock must be a multiple of 32")
    bits = 64 if is64 else 32
    modmask = (1 << bits) - 1
    per_mini = block_size // miniblocks
    values = [_wrap_signed(int(v), bits) for v in values]
    out = bytearray()
    out += uvarint(block_size)
    out += uvarint(miniblocks)
    out += uvarint(len(values))
    out += uvarint(zigzag(values[0] if values else 0))
    widths_used = []
    deltas = [_wrap_signed(values[i] - values[i - 1], bits) for i in range(1, len(values))]
    for b in range(0, len(deltas), block_size):
        block = deltas[b:b + block_size]
        min_delta = min(block)
        rel = [(d - min_delta) & modmask for d in block]
        out += uvarint(zigzag(min_delta))
        widths = []
        for m in range(miniblocks):
            mini = rel[m * per_mini:(m + 1) * per_mini]
            # (width bytes of miniblocks that hold no value "should be zero, but readers must accept arbitrary values")
            widths.append(bit_width(max(mini)) if mini else unused_width)
        out += bytes(widths)
        for m in range(miniblocks):
            mini = rel[m * per_mini:(m + 1) * per_mini]
            if not mini:
                break
            widths_used.append(widths[m])
            mini = mini + [0] * (per_mini - len(mini))
            out += pack_bits(mini, widths[m])
    if info is not None:
        info.setdefault("widths", []).extend(widths_used)
    return bytes(out)


def decode_delta(buf, pos, is64=True, end=None, info=None, max_count=None):
    """Decode one DELTA_BINARY_PACKED stream -> (values, pos after the stream).

    ``info`` receives 'block_size', 'miniblocks', 'count', 'widths' and a list
    'violations' (header values the specification forbids).
    """
    if end is None:
        end = len(buf)
    bits = 64 if is64 else 32
    modmask = (1 << bits) - 1
    block_size, pos = _uv(buf, pos, end)
    miniblocks, pos = _uv(buf, pos, end)
    total, pos = _uv(buf, pos, end)
    first, pos = _uv(buf, pos, end)
    first = unzigzag(first)
    if max_count is not None and total > max_count:
        raise DecodeError("delta: stream declares %d values, at most %d expected" % (total, max_count))
    violations = []
    if block_size == 0 or block_size % 128:
        violations.append("block size %d is not a positive multiple of 128" % block_size)
    if miniblocks == 0 or (block_size % miniblocks if miniblocks else True):
        violations.append("miniblock count %d does not divide block size %d" % (miniblocks, block_size))
        if miniblocks == 0 or block_size == 0:
            if total > 1:
                raise DecodeError("delta: unusable header block=%d miniblocks=%d" % (block_size, miniblocks))
    per_mini = block_size // miniblocks if miniblocks else 0
    if per_mini % 32:
        violations.append("values per miniblock %d is not a multiple of 32" % per_mini)
    if per_mini % 8 and total > 1:
        raise DecodeError("delta: values per miniblock %d not a multiple of 8" % per_mini)
    if not (-(1 << (bits - 1)) <= first < (1 << (bits - 1))):
        violations.append("first value %d outside the %d-bit range" % (first, bits))
        first = _wrap_signed(first, bits)
    widths_seen = []
    out = []
    if total:
        out.append(first)
    if total > (end - pos) * 8 * max(per_mini, 1) + 1:
        raise DecodeError("delta: count %d impossible for %d bytes" % (total, end - pos))
    prev = first
    while len(out) < total:
        md, pos = _uv(buf, pos, end)
        min_delta = unzigzag(md)
        if pos + miniblocks > end:
            raise DecodeError("delta: bit width list crosses end")
        widths = list(buf[pos:pos + miniblocks])
        pos += miniblocks
        for m in range(miniblocks):
            need = total - len(out)
            if need == 0:
                break
            w = widths[m]
            if w > bits:
                violations.append("miniblock bit width %d exceeds %d" % (w, bits))
                if w > 64:
                    raise DecodeError("delta: miniblock bit width %d" % w)
            widths_seen.append(w)
            nbytes = per_mini * w // 8
            take = min(per_mini, need)
            if pos + nbytes > end:
                min_bytes = (take * w + 7) // 8
                if take == need and pos + min_bytes <= end:
                    _tol("delta_truncated_padding", info)
                    vals = unpack_bits(buf[:end], pos, w, take)
                    pos = end
                else:
                    raise DecodeError("delta: miniblock at %d (width %d) crosses end %d" % (pos, w, end))
            else:
                vals = unpack_bits(buf, pos, w, take)
                pos += nbytes
            for r in vals:
                prev = _wrap_signed(prev + min_delta + r, bits)
                out.append(prev)
    if info is not None:
        info["block_size"] = block_size
        info["miniblocks"] = miniblocks
        info["count"] = total
        info.setdefault("widths", []).extend(widths_seen)
        info.setdefault("violations", []).extend(violations)
    return out, pos


# ====================================================================== DELTA_LENGTH_BYTE_ARRAY / DELTA_BYTE_ARRAY

def encode_delta_length_byte_array(values, block_size=128, miniblocks=4):
    lens = [len(v) for v in values]
    return encode_delta(lens, block_size, miniblocks, is64=False) + b"".join(values)


def decode_delta_length_byte_array(buf, pos, end, count=None, info=None):
    lens, pos = decode_delta(buf, pos, is64=False, end=end, info=info, max_count=count)
    out = []
    for i, ln in enumerate(lens):
        if ln < 0 or pos + ln > end:
            raise DecodeError("DELTA_LENGTH_BYTE_ARRAY: value %d length %d crosses end" % (i, ln))
        out.append(bytes(buf[pos:pos + ln]))
        pos += ln
    if count is not None and len(out) != count:
        raise DecodeError("DELTA_LENGTH_BYTE_ARRAY: %d values, expected %d" % (len(out), count))
    return out, pos


def encode_delta_byte_array(values, block_size=128, miniblocks=4):
    prefixes = []
    suffixes = []
    prev = b""
    for v in values:
        k = 0
        m = min(len(prev), len(v))
        while k < m and prev[k] == v[k]:
            k += 1
        prefixes.append(k)
        suffixes.append(v[k:])
        prev = v
    return (encode_delta(prefixes, block_size, miniblocks, is64=False)
            + encode_delta_length_byte_array(suffixes, block_size, miniblocks))


def decode_delta_byte_array(buf, pos, end, count=None, info=None):
    prefixes, pos = decode_delta(buf, pos, is64=False, end=end, info=info, max_count=count)
    suffixes, pos = decode_delta_length_byte_array(buf, pos, end, count=None if count is None else len(prefixes), info=info)
    if len(prefixes) != len(suffixes):
        raise DecodeError("DELTA_BYTE_ARRAY: %d prefixes, %d suffixes" % (len(prefixes), len(suffixes)))
    out = []
    prev = b""
    for i, (p, s) in enumerate(zip(prefixes, suffixes)):
        if p < 0 or p > len(prev):
            raise DecodeError("DELTA_BYTE_ARRAY: value %d prefix length %d > previous length %d" % (i, p, len(prev)))
        prev = prev[:p] + s
        out.append(prev)
    if count is not None and len(out) != count:
        raise DecodeError("DELTA_BYTE_ARRAY: %d values, expected %d" % (len(out), count))
    return out, pos


# ====================================================================== BYTE_STREAM_SPLIT

def encode_byte_stream_split(raw_values, width):
    """``raw_values``: list of bytes objects each ``width`` long (the PLAIN
    little-endian representation of each value)."""
    for v in raw_values:
        if len(v) != width:
            raise ValueError("BYTE_STREAM_SPLIT value of length %d, width %d" % (len(v), width))
    return b"".join(bytes(v[k] for v in raw_values) for k in range(width))


def decode_byte_stream_split(buf, pos, end, count, width):
    if pos + count * width > end:
        raise DecodeError("BYTE_STREAM_SPLIT: need %d bytes, have %d" % (count * width, end - pos))
    out = []
    for i in range(count):
        out.append(bytes(buf[pos + k * count + i] for k in range(width)))
    return out, pos + count * width


def raw_to_physical(physical, raw):
    """Interpret PLAIN raw bytes of one fixed width value."""
    if physical == "INT32":
        return struct.unpack("<i", raw)[0]
    if physical == "INT64":
        return struct.unpack("<q", raw)[0]
    if physical == "FLOAT":
        return struct.unpack("<f", raw)[0]
    if physical == "DOUBLE":
        return struct.unpack("<d", raw)[0]
    return raw
