"""Deterministic builders: frame case -> pandas objects, and the *expected logical
table* computed from the case without touching fastparquet (vf/model/table.py
compares results against it)."""
import contextlib
import datetime
import json
import math

import numpy as np
import pandas as pd


class _Missing:
    def __repr__(self):
        return "MISSING"

    def __reduce__(self):
        return (_get_missing, ())


def _get_missing():
    return MISSING


MISSING = _Missing()

UNIT_NS = {"s": 10 ** 9, "ms": 10 ** 6, "us": 10 ** 3, "ns": 1}


def null_mask(null, n):
    pat = null.get("pat", "none") if null else "none"
    if pat == "none" or n == 0:
        return [False] * n
    if pat == "all":
        return [True] * n
    if pat == "first_only":
        return [i == 0 for i in range(n)]
    if pat == "last_only":
        return [i == n - 1 for i in range(n)]
    if pat == "all_but_one":
        keep = n // 2
        return [i != keep for i in range(n)]
    m = null.get("mask") or [False]
    return [bool(m[i % len(m)]) for i in range(n)]


def raw_values(col, n):
    """Python values of the column (MISSING where the null pattern says so)."""
    kind = col["kind"]
    idx = col["idx"] or [0]
    mask = null_mask(col.get("null"), n)
    if kind == "category":
        pool = col["cats"]
    else:
        pool = col["pool"]
    out = []
    for i in range(n):
        if mask[i] or not pool:          # (a categorical without any category holds missing cells only)
            out.append(MISSING)
            continue
        v = pool[idx[i % len(idx)] % len(pool)]
        if kind == "float" and isinstance(v, float) and v != v:
            v = MISSING
        out.append(v)
    return out


def tzinfo_of(tz):
    if tz is None:
        return None
    if ":" in tz:
        sign = -1 if tz.startswith("-") else 1
        hh, mm = tz.lstrip("+-").split(":")
        return datetime.timezone(sign * datetime.timedelta(hours=int(hh), minutes=int(mm)))
    return tz


def build_array(col, n):
    """pandas/numpy array for the column."""
    kind = col["kind"]
    vals = raw_values(col, n)
    if kind == "bool":
        return np.array(vals, dtype=bool)
    if kind == "int":
        return np.array(vals, dtype=col["sub"])
    if kind == "float":
        if col.get("ext"):
            return pd.array(np.array([0.0 if v is MISSING else v for v in vals], dtype="float64"), dtype=col["ext"]) \
                if not any(v is MISSING for v in vals) else \
                pd.arrays.FloatingArray(np.array([0.0 if v is MISSING else v for v in vals], dtype="float64"),
                                        np.array([v is MISSING for v in vals], dtype=bool))
        return np.array([np.nan if v is MISSING else v for v in vals], dtype=col["sub"])
    if kind == "text":
        if col.get("sub") == "str":
            return pd.array([None if v is MISSING else v for v in vals], dtype="str")
        a = np.empty(n, dtype=object)
        a[:] = [None if v is MISSING else v for v in vals]
        return a
    if kind == "bytes":
        a = np.empty(n, dtype=object)
        a[:] = [None if v is MISSING else bytes.fromhex(v) for v in vals]
        return a
    if kind == "json":
        a = np.empty(n, dtype=object)
        for i, v in enumerate(vals):
            a[i] = None if v is MISSING else json.loads(json.dumps(v))
        return a
    if kind == "datetime":
        ticks = np.array([np.iinfo("int64").min if v is MISSING else v for v in vals], dtype="int64")
        arr = ticks.view("M8[%s]" % col["unit"])
        tz = col.get("tz")
        if tz is None:
            return pd.array(arr, dtype="datetime64[%s]" % col["unit"])
        s = pd.Series(arr).dt.tz_localize("UTC").dt.tz_convert(tzinfo_of(tz))
        return s.array
    if kind == "timedelta":
        ticks = np.array([np.iinfo("int64").min if v is MISSING else v for v in vals], dtype="int64")
        return pd.array(ticks.view("m8[%s]" % col["unit"]), dtype="timedelta64[%s]" % col["unit"])
    if kind == "category":
        cats = col["cats"]
        idx = col["idx"] or [0]
        mask = null_mask(col.get("null"), n)
        codes = [-1 if (mask[i] or not cats) else idx[i % len(idx)] % len(cats) for i in range(n)]
        if col["labels"] == "float":
            cindex = pd.Index(np.array(cats, dtype="float64"))
        elif col["labels"] == "int":
            cindex = pd.Index(np.array(cats, dtype="int64"))
        elif col["labels"] == "bool":
            cindex = pd.Index(np.array(cats, dtype="bool"))
        else:
            cindex = pd.Index(np.array(cats, dtype=object), dtype=object)
        return pd.Categorical.from_codes(codes, categories=cindex, ordered=bool(col.get("ordered")))
    if kind == "nullable":
        # built from an exact numpy array and a mask: pd.array(list, dtype="UInt64") goes through float64 when the list
        # mixes values above the int64 range with others, and silently changes them
        mask = np.array([v is MISSING for v in vals], dtype=bool)
        if col["sub"] == "boolean":
            return pd.arrays.BooleanArray(np.array([False if v is MISSING else bool(v) for v in vals], dtype=bool), mask)
        data = np.array([0 if v is MISSING else int(v) for v in vals], dtype=col["sub"].lower())
        return pd.arrays.IntegerArray(data, mask)
    if kind == "pyobj":
        a = np.empty(n, dtype=object)
        conv = {"int": int, "bool": bool, "float": float}[col["sub"]]
        a[:] = [None if v is MISSING else conv(v) for v in vals]
        return a
    raise ValueError(kind)


def build_frame(fr):
    n = fr["n"]
    data = {}
    for col in fr["cols"]:
        arr = build_array(col, n)
        # pandas >= 3 would infer the `str` dtype from an object array of strings
        dt = object if getattr(arr, "dtype", None) == object else None
        data[col["name"]] = pd.Series(arr, name=col["name"], dtype=dt)
    df = pd.DataFrame(data, columns=[c["name"] for c in fr["cols"]])
    if len(df.columns) and len(df) != n:  # pragma: no cover
        raise AssertionError("builder produced %d rows for n=%d" % (len(df), n))
    if not fr["cols"]:
        df = pd.DataFrame(index=pd.RangeIndex(n))
    if fr.get("range") and fr.get("index") is None:
        start, step = fr["range"]
        df.index = pd.RangeIndex(start, start + n * step, step)
    ic = fr.get("index")
    if ic is not None:
        arr = build_array(ic, n)
        df.index = pd.Index(arr, name=ic["name"], dtype=(object if getattr(arr, "dtype", None) == object else None))
    return df


# ------------------------------------------------------------ canonical values
def canon_value(col, v):
    """Canonical, hashable, exactly comparable form of one expected cell."""
    if v is MISSING:
        return MISSING
    kind = col["kind"]
    if kind == "bool":
        return bool(v)
    if kind in ("int", "datetime", "timedelta"):
        return int(v)
    if kind == "nullable":
        return bool(v) if col["sub"] == "boolean" else int(v)
    if kind == "pyobj":
        if col["sub"] == "float":
            return float(v).hex()
        return bool(v) if col["sub"] == "bool" else int(v)
    if kind == "float":
        f = float(np.float32(v)) if col["sub"] == "float32" else float(v)
        return MISSING if f != f else f.hex()
    if kind == "text":
        return str(v)
    if kind == "bytes":
        return bytes.fromhex(v)
    if kind == "json":
        return json.dumps(v, sort_keys=True)
    if kind == "category":
        return canon_label(col["labels"], v)
    raise ValueError(kind)


def canon_label(lk, v):
    if lk == "text":
        return str(v)
    if lk == "int":
        return int(v)
    if lk == "bool":
        return bool(v)
    f = float(v)
    return MISSING if f != f else f.hex()


def expected_column(col, n):
    return [canon_value(col, v) for v in raw_values(col, n)]


def has_missing(col, n):
    return any(v is MISSING for v in raw_values(col, n))


# ------------------------------------------------------------ write options
@contextlib.contextmanager
def writer_globals(opts):
    """Set the two module globals the property names, restore them afterwards."""
    from fastparquet import writer
    old = (writer.MAX_PAGE_SIZE, writer.DATAPAGE_VERSION)
    try:
        if opts.get("page_size"):
            writer.MAX_PAGE_SIZE = opts["page_size"]
        writer.DATAPAGE_VERSION = opts.get("dpv", 1)
        yield
    finally:
        writer.MAX_PAGE_SIZE, writer.DATAPAGE_VERSION = old


def write_kwargs(opts):
    kw = {}
    for k_case, k_api in (("compression", "compression"), ("rgo", "row_group_offsets"),
                          ("has_nulls", "has_nulls"), ("stats", "stats"), ("times", "times"),
                          ("object_encoding", "object_encoding"), ("file_scheme", "file_scheme"),
                          ("write_index", "write_index")):
        if k_case in opts:
            v = opts[k_case]
            if isinstance(v, (dict, list)):
                v = json.loads(json.dumps(v))
            kw[k_api] = v
    return kw


def codec_family(opts, colname=None):
    c = opts.get("compression")
    if isinstance(c, dict):
        c = c.get(colname, c.get("_default"))
        if isinstance(c, dict):
            c = c.get("type")
    if not c or str(c).upper() == "UNCOMPRESSED":
        return "none"
    return str(c).upper()


def col_optional(opts, col, is_object_like, cat_missing=False):
    """Is the column written OPTIONAL (definition levels present)?  Under 'infer': object columns, and categorical
    columns that hold a missing cell (there is no sentinel among dictionary indices)."""
    hn = opts.get("has_nulls", True)
    if hn is True:
        return True
    if hn is False:
        return False
    if hn == "infer":
        return is_object_like or cat_missing
    return col in hn


def required_with_missing(fr, opts, kinds=("category",)):
    """Columns of the given kinds that hold missing cells but are declared REQUIRED
    (has_nulls False / not listed): the library refuses to write them (C18; C02 checks that
    no file with a -1 dictionary index is ever produced); checks about reading have nothing to read."""
    out = []
    n = fr["n"]
    for c in fr["cols"] + ([fr["index"]] if fr.get("index") else []):
        if c["kind"] in kinds and has_missing(c, n):
            if not col_optional(opts, c["name"], False, cat_missing=c["kind"] == "category"):
                out.append(c["name"])
    return out
