"""Hypothesis strategies for refpq.writer *file plans*: valid Parquet files from "another
writer" with explicit control of types, encodings, run plans, page boundaries, codecs.

flat_plan(...)   -> plan with 1-4 flat columns over the supported feature set (C03, C17)
nested_plan(...) -> LIST / MAP columns (C15)
Feature switches keep the campaign away from recorded findings (counted by the caller)."""
import copy
import json
import struct

from hypothesis import strategies as st

CODECS = ["UNCOMPRESSED", "UNCOMPRESSED", "SNAPPY", "GZIP", "ZSTD", "LZ4_RAW", "BROTLI"]

# (key, physical, extra node fields, value kind)
FLAT_TYPES = [
    ("bool", "BOOLEAN", {}, "bool"),
    ("i32", "INT32", {}, "i32"),
    ("i8", "INT32", {"converted": "INT_8"}, "i8"),
    ("i16", "INT32", {"converted": "INT_16"}, "i16"),
    ("i32c", "INT32", {"converted": "INT_32"}, "i32"),
    ("u8", "INT32", {"converted": "UINT_8"}, "u8"),
    ("u16", "INT32", {"converted": "UINT_16"}, "u16"),
    ("u32", "INT32", {"converted": "UINT_32"}, "u32"),
    ("date", "INT32", {"converted": "DATE"}, "date"),
    ("time_ms", "INT32", {"converted": "TIME_MILLIS"}, "time_ms"),
    ("dec9", "INT32", {"converted": "DECIMAL", "precision": 9, "scale": 2}, "dec9"),
    ("i64", "INT64", {}, "i64"),
    ("i64c", "INT64", {"converted": "INT_64"}, "i64"),
    ("u64", "INT64", {"converted": "UINT_64"}, "u64"),
    ("ts_ms", "INT64", {"converted": "TIMESTAMP_MILLIS"}, "ts_ms"),
    ("ts_us", "INT64", {"converted": "TIMESTAMP_MICROS"}, "ts_us"),
    ("ts_ns", "INT64", {"logical": {"TIMESTAMP": {"isAdjustedToUTC": True, "unit": {"NANOS": {}}}}}, "ts_ns"),
    ("ts_us_l", "INT64", {"logical": {"TIMESTAMP": {"isAdjustedToUTC": False, "unit": {"MICROS": {}}}},
                          "converted": "TIMESTAMP_MICROS"}, "ts_us"),
    ("ts_ms_l", "INT64", {"logical": {"TIMESTAMP": {"isAdjustedToUTC": True, "unit": {"MILLIS": {}}}},
                          "converted": "TIMESTAMP_MILLIS"}, "ts_ms"),
    ("time_us", "INT64", {"converted": "TIME_MICROS"}, "time_us"),
    ("dec18", "INT64", {"converted": "DECIMAL", "precision": 18, "scale": 3}, "dec18"),
    ("i96", "INT96", {}, "i96"),
    ("f32", "FLOAT", {}, "f32"),
    ("f64", "DOUBLE", {}, "f64"),
    ("bytes", "BYTE_ARRAY", {}, "bytes"),
    ("utf8", "BYTE_ARRAY", {"converted": "UTF8"}, "text"),
    ("string", "BYTE_ARRAY", {"logical": {"STRING": {}}, "converted": "UTF8"}, "text"),
    ("json", "BYTE_ARRAY", {"converted": "JSON"}, "json"),
    ("enum", "BYTE_ARRAY", {"converted": "ENUM"}, "text"),
    ("dec30b", "BYTE_ARRAY", {"converted": "DECIMAL", "precision": 30, "scale": 5}, "dec30b"),
    ("fixed5", "FIXED_LEN_BYTE_ARRAY", {"type_length": 5}, "fixed5"),
    ("dec16", "FIXED_LEN_BYTE_ARRAY", {"type_length": 7, "converted": "DECIMAL", "precision": 16, "scale": 4}, "dec16"),
]
TYPE_BY_KEY = {t[0]: t for t in FLAT_TYPES}

_TEXTS = ["", "a", "b", "abc", "abd", "hello", "z" * 20, "été", "日本", "\U0001f600", "x y", "A"]
_FLOATS = [0.0, -0.0, 1.0, -1.0, 1.5, float("inf"), float("-inf"), 1e-310, 3.141592653589793, 1e300, -2.5]


def _ints(bits, signed):
    lo, hi = (-(1 << (bits - 1)), (1 << (bits - 1)) - 1) if signed else (0, (1 << bits) - 1)
    return st.one_of(st.sampled_from([lo, hi, 0, 1, hi - 1, lo + 1, min(hi, 127), min(hi, 128), min(hi, 255)]),
                     st.integers(lo, hi), st.integers(max(lo, -100), min(hi, 100)))


def value(kind, narrow=False):
    """Strategy of one non-null plan value of the given kind."""
    if kind == "bool":
        return st.booleans()
    if kind in ("i8", "i16", "i32", "i64"):
        bits = int(kind[1:])
        return st.integers(-3, 3) if narrow else _ints(bits, True)
    if kind in ("u8", "u16", "u32", "u64"):
        bits = int(kind[1:])
        return st.integers(0, 4) if narrow else _ints(bits, False)
    if kind == "date":
        return st.integers(-100000, 100000)          # days: +-273 years, inside the ns range
    if kind == "time_ms":
        return st.integers(0, 86399999)
    if kind == "time_us":
        return st.integers(0, 86399999999)
    if kind == "ts_ms":
        return st.one_of(st.integers(-9 * 10 ** 12, 9 * 10 ** 12), st.sampled_from([0, 1, -1, 1585443600000]))
    if kind == "ts_us":
        return st.one_of(st.integers(-9 * 10 ** 15, 9 * 10 ** 15), st.sampled_from([0, 1, -1]))
    if kind == "ts_ns":
        return st.one_of(st.integers(-9 * 10 ** 18, 9 * 10 ** 18), st.sampled_from([0, 1, -1]))
    if kind == "dec9":
        return st.integers(-2, 2) if narrow else st.integers(-999999999, 999999999)
    if kind == "dec18":
        return st.integers(-2, 2) if narrow else st.integers(-10 ** 15, 10 ** 15)
    if kind == "dec16":
        return st.integers(-2, 2) if narrow else st.integers(-10 ** 15, 10 ** 15)
    if kind == "dec30b":
        # variable-length two's complement (what parquet-mr writes for high precisions): 1..9 bytes here
        return st.integers(-2, 2) if narrow else st.one_of(st.integers(-10 ** 20, 10 ** 20), st.integers(-70000, 70000),
                                                           st.sampled_from([0, -1, 127, 128, -128, -129, 32767, 32768]))
    if kind == "i96":
        return st.one_of(st.sampled_from([0, 1, 86400 * 10 ** 9 - 1, -1, 1470092881000000000]),
                         st.integers(-4 * 10 ** 18, 4 * 10 ** 18))
    if kind == "f32":
        return st.one_of(st.sampled_from(_FLOATS), st.floats(width=32, allow_nan=False), st.just(float("nan")))
    if kind == "f64":
        return st.one_of(st.sampled_from(_FLOATS), st.floats(allow_nan=False), st.just(float("nan")))
    if kind == "bytes":
        return st.one_of(st.sampled_from(["", "00", "ff", "0001", "6162"]), st.binary(max_size=12).map(lambda b: b.hex())).map(
            lambda h: {"hex": h})
    if kind == "text":
        return st.one_of(st.sampled_from(_TEXTS), st.text(max_size=6))
    if kind == "json":
        leaf = st.one_of(st.none(), st.booleans(), st.integers(-1000, 1000), st.text(max_size=3))
        tree = st.recursive(leaf, lambda ch: st.one_of(st.lists(ch, max_size=3), st.dictionaries(st.text(max_size=2), ch, max_size=2)),
                            max_leaves=5)
        return tree.map(lambda t: json.dumps(t))
    if kind == "fixed5":
        # (no trailing NUL: numpy 'S' arrays, through which the library reads FIXED_LEN_BYTE_ARRAY, strip them - recorded finding)
        return st.binary(min_size=5, max_size=5).map(lambda b: {"hex": (b[:4] + bytes([b[4] or 1])).hex()})
    raise ValueError(kind)


def pad_value(kind, i):
    """i-th filler entry of a padded dictionary: a valid plan value of the kind, a pure function of (kind, i)."""
    if kind in ("i8", "i16", "i32", "i64", "u8", "u16", "u32", "u64"):
        bits = int(kind[1:])
        lo, hi = (-(1 << (bits - 1)), (1 << (bits - 1)) - 1) if kind[0] == "i" else (0, (1 << bits) - 1)
        return lo + (i * 2654435761 + 12345) % (hi - lo + 1)
    if kind in ("date", "dec9", "dec18", "dec16", "dec30b"):
        return i - 50
    if kind in ("time_ms", "time_us"):
        return i * 1000 + 1
    if kind in ("ts_ms", "ts_us", "ts_ns"):
        return i * 1000003 - 7
    if kind == "i96":
        return i * 10 ** 9 + 1
    if kind in ("f32", "f64"):
        return i + 0.25
    if kind == "bytes":
        return {"hex": "%08x" % i + "00" * (i % 3)}
    if kind == "text":
        return "pad%d" % i
    if kind == "json":
        return json.dumps({"pad": i})
    if kind == "fixed5":
        return {"hex": "%08x01" % i}
    raise ValueError(kind)


def expand_plan(plan):
    """Plan as refpq.writer takes it: `dict_pad` {n, kind} of a chunk becomes an explicit dictionary list of n filler
    entries (the values the pages need are appended behind them by the encoder). Returns a copy when anything changed."""
    if not any("dict_pad" in cp for rg in plan.get("row_groups", []) for cp in (rg.get("chunks") or {}).values()):
        return plan
    plan = copy.deepcopy(plan)
    for rg in plan["row_groups"]:
        for cp in (rg.get("chunks") or {}).values():
            pad = cp.pop("dict_pad", None)
            if pad and not isinstance(cp.get("dictionary"), list):
                cp["dictionary"] = [pad_value(pad["kind"], i) for i in range(pad["n"])]
    return plan


@st.composite
def run_plan(draw, n):
    """Explicit run plan over n entries: mixture of RLE and bit-packed runs around group boundaries."""
    if n == 0 or draw(st.integers(0, 2)) == 0:
        return None
    if draw(st.integers(0, 5)) == 0:
        # one RLE run per entry (what a naive encoder emits when neighbours differ): the stream is longer in bytes
        # than it has entries
        return [["rle", 1]] * min(n, 64)
    runs = []
    left = n
    while left > 0 and len(runs) < 8:
        if draw(st.booleans()):
            k = draw(st.sampled_from([1, 2, 3, 7, 8, 9, 15, 16, 17, 63, 64, 65]))
            runs.append(["rle", k])
            left -= k
        else:
            g = draw(st.sampled_from([1, 1, 2, 3, 8]))
            runs.append(["bp", g])
            left -= 8 * g
    return runs


@st.composite
def column(draw, name, type_keys, max_rows, n_groups):
    key = draw(st.sampled_from(type_keys))
    _, physical, extra, kind = TYPE_BY_KEY[key]
    optional = draw(st.booleans())
    node = {"name": name, "repetition": "OPTIONAL" if optional else "REQUIRED", "physical": physical}
    node.update(extra)
    narrow = draw(st.booleans())
    pool = draw(st.lists(value(kind, narrow), min_size=1, max_size=10))
    return {"node": node, "key": key, "kind": kind, "pool": pool, "optional": optional}


def _page_encodings(kind, physical, allow):
    encs = ["PLAIN", "PLAIN", "PLAIN_DICTIONARY", "RLE_DICTIONARY", "RLE_DICTIONARY"]
    if physical == "BOOLEAN":
        encs = ["PLAIN", "PLAIN"] + (["RLE"] if allow.get("rle_bool", True) else [])
    if physical in ("INT32", "INT64") and allow.get("delta", True):
        encs = encs + ["DELTA_BINARY_PACKED"]
    if allow.get("dict_only") and physical != "BOOLEAN":
        encs = ["PLAIN_DICTIONARY", "RLE_DICTIONARY"]
    return encs


@st.composite
def chunk_plan(draw, col, rows, allow):
    """rows: list of slot values (None = null) of this chunk."""
    physical = col["node"]["physical"]
    n = len(rows)
    npages = draw(st.sampled_from([1, 1, 2, 3, 4, 6]))
    base_enc = draw(st.sampled_from(_page_encodings(col["kind"], physical, allow)))
    version = draw(st.sampled_from([1, 1, 2]))
    mixed_versions = draw(st.integers(0, 5)) == 0
    fallback_at = draw(st.integers(1, npages)) if base_enc in ("PLAIN_DICTIONARY", "RLE_DICTIONARY") and npages > 1 \
        and draw(st.booleans()) and not allow.get("dict_only") else None
    pages = []
    left = n
    for pi in range(npages):
        last = pi == npages - 1
        pn = None if last else draw(st.integers(0, max(0, left)))
        enc = base_enc
        if fallback_at is not None and pi >= fallback_at:
            enc = "PLAIN"
        v = version if not mixed_versions else draw(st.sampled_from([1, 2]))
        if enc == "DELTA_BINARY_PACKED" and v == 2 and not allow.get("delta_v2", True):
            v = 1
        page = {"n": pn, "version": v, "encoding": enc}
        cnt = left if pn is None else pn
        if enc in ("PLAIN_DICTIONARY", "RLE_DICTIONARY"):
            maxw = allow.get("max_index_width", 32)
            page["bit_width"] = draw(st.one_of(st.none(), st.integers(0, maxw), st.sampled_from([1, 7, 8, 9, 15, 16, 17, 24][: 8 if maxw >= 24 else 5])))
            if page["bit_width"] is not None:
                page["bit_width"] = min(page["bit_width"], maxw)
            page["index_runs"] = draw(run_plan(cnt))
        if enc == "RLE":
            page["value_runs"] = draw(run_plan(cnt))
        if col["optional"]:
            page["def_runs"] = draw(run_plan(cnt))
        if enc == "DELTA_BINARY_PACKED":
            page["delta"] = draw(st.sampled_from([{"block_size": 128, "miniblocks": 4}, {"block_size": 128, "miniblocks": 4},
                                                  {"block_size": 256, "miniblocks": 8}, {"block_size": 128, "miniblocks": 1},
                                                  {"block_size": 256, "miniblocks": 2}]))
        if v == 2:
            page["is_compressed"] = draw(st.sampled_from([None, True, False]))
        pages.append(page)
        if pn is not None:
            left -= pn
    cp = {"codec": draw(st.sampled_from(CODECS)), "pages": pages,
          "stats": draw(st.sampled_from([None, None, True, {"fields": ["min", "max", "null_count"]},
                                         {"fields": ["min_value", "max_value"]}, {"fields": ["null_count"]}]))}
    if base_enc in ("PLAIN_DICTIONARY", "RLE_DICTIONARY") and draw(st.integers(0, 3)) == 0:
        cp["dictionary"] = "auto"
    elif base_enc in ("PLAIN_DICTIONARY", "RLE_DICTIONARY") and allow.get("dict_pad", True) and draw(st.integers(0, 2)) == 0:
        # a dictionary whose first entries no row refers to (a foreign writer may share one dictionary between
        # chunks, or keep entries of deleted rows): the indices that do occur are large although the rows are few
        sizes = [1, 5, 100, 127, 128, 129, 200, 250, 255, 256, 257, 300]
        if allow.get("big_dict"):
            sizes += [1000, 4095, 4096, 32767, 32768, 40000, 65535, 65536, 70000]
        cp["dict_pad"] = {"n": draw(st.sampled_from(sizes)), "kind": col["kind"]}
    if not allow.get("stats_without_null_count", True) and isinstance(cp["stats"], dict) and "null_count" not in cp["stats"]["fields"]:
        cp["stats"]["fields"] = cp["stats"]["fields"] + ["null_count"]
    return cp


SUPPORTED_KEYS = [t[0] for t in FLAT_TYPES]


@st.composite
def flat_plan(draw, thorough=False, allow=None, type_keys=None, pandas_meta=False):
    allow = dict(allow or {})
    if thorough:
        allow.setdefault("big_dict", True)
    type_keys = type_keys or SUPPORTED_KEYS
    ncols = draw(st.integers(1, 4))
    n_groups = 1 if allow.get("single_group") else draw(st.sampled_from([1, 1, 2, 3]))
    max_rows = 300 if thorough else 70
    names = ["c%d" % i for i in range(ncols)]
    cols = [draw(column(nm, type_keys, max_rows, n_groups)) for nm in names]
    rgs = []
    for g in range(n_groups):
        n = draw(st.one_of(st.integers(0, 20), st.sampled_from([0, 1, 7, 8, 9, 63, 64, 65, max_rows])))
        data, chunks = {}, {}
        for c in cols:
            idx = draw(st.lists(st.integers(0, 9), min_size=1, max_size=24))
            nullmask = draw(st.lists(st.booleans(), min_size=1, max_size=16)) if c["optional"] and draw(st.integers(0, 3)) > 0 else [False]
            if c["optional"] and draw(st.integers(0, 9)) == 0:
                nullmask = [True]
            rows = [None if nullmask[i % len(nullmask)] else c["pool"][idx[i % len(idx)] % len(c["pool"])] for i in range(n)]
            # long constant stretches make real RLE runs
            if n >= 8 and draw(st.integers(0, 2)) == 0:
                a = draw(st.integers(0, n - 1))
                b = min(n, a + draw(st.sampled_from([2, 8, 9, 17, 64])))
                fill = rows[a]
                rows[a:b] = [fill] * (b - a)
            data[c["node"]["name"]] = rows
            chunks[c["node"]["name"]] = draw(chunk_plan(c, rows, allow))
        rgs.append({"data": data, "chunks": chunks})
    plan = {"schema": [c["node"] for c in cols], "row_groups": rgs,
            "created_by": draw(st.sampled_from(["parquet-mr version 1.12.3 (build abc)", "parquet-cpp-arrow version 14.0.1",
                                                "impala version 3.4.0", None]))}
    return {"plan": plan, "cols": [{"key": c["key"], "kind": c["kind"], "name": c["node"]["name"]} for c in cols]}


UNSUPPORTED = ["DELTA_LENGTH_BYTE_ARRAY", "DELTA_BYTE_ARRAY", "BYTE_STREAM_SPLIT", "BIT_PACKED_LEVELS", "LZO"]


@st.composite
def unsupported_plan(draw):
    """A valid file that uses exactly one feature outside the reader's supported set."""
    feat = draw(st.sampled_from(UNSUPPORTED))
    if feat in ("DELTA_LENGTH_BYTE_ARRAY", "DELTA_BYTE_ARRAY"):
        keys = ["utf8", "bytes"]
    elif feat == "BYTE_STREAM_SPLIT":
        keys = ["f32", "f64"]
    else:
        keys = ["i32", "i64", "utf8", "f64"]
    case = draw(flat_plan(type_keys=keys, allow={"delta": False, "rle_bool": False, "max_index_width": 16}))
    plan = case["plan"]
    # plant the feature in the first chunk that has rows
    for rg in plan["row_groups"]:
        for name, cp in rg["chunks"].items():
            if feat == "LZO":
                cp["codec"] = "LZO"
            elif feat == "BIT_PACKED_LEVELS":
                for p in cp["pages"]:
                    p["version"] = 1
                    p["level_encoding"] = "BIT_PACKED"
                    p.pop("is_compressed", None)
            else:
                for p in cp["pages"]:
                    p["encoding"] = feat
                    p.pop("bit_width", None)
                    p.pop("index_runs", None)
                cp.pop("dictionary", None)
    if feat == "BIT_PACKED_LEVELS":
        for node in plan["schema"]:
            node["repetition"] = "OPTIONAL"
    case["unsupported"] = feat
    return case


# ------------------------------------------------------------------ nested (C15)
ELEMENT_TYPES = [
    ("i32", {"physical": "INT32"}, "i32"),
    ("i64", {"physical": "INT64"}, "i64"),
    ("f64", {"physical": "DOUBLE"}, "f64"),
    ("utf8", {"physical": "BYTE_ARRAY", "converted": "UTF8"}, "text"),
    ("bool", {"physical": "BOOLEAN"}, "bool"),
]


@st.composite
def nested_column(draw, name, layouts=("3level",), allow_map=True, force_outer_opt=False):
    from vf.refpq import dremel
    is_map = allow_map and draw(st.integers(0, 3)) == 0
    ekey, enode, ekind = draw(st.sampled_from(ELEMENT_TYPES))
    narrow = draw(st.booleans())
    pool = draw(st.lists(value(ekind, narrow), min_size=1, max_size=8))
    if ekind == "f64":
        pool = [v for v in pool if v == v] or [1.5]
    outer_opt = True if force_outer_opt else draw(st.booleans())
    inner_opt = draw(st.booleans())
    if is_map:
        kkey, knode, kkind = draw(st.sampled_from([t for t in ELEMENT_TYPES if t[0] in ("i32", "i64", "utf8")]))
        kpool = draw(st.lists(value(kkind, True), min_size=1, max_size=6, unique_by=lambda x: repr(x)))
        node = dremel.map_schema(name, dict(knode), dict(enode), map_optional=outer_opt, value_optional=inner_opt,
                                 legacy=draw(st.integers(0, 4)) == 0)
        return {"node": node, "shape": "map", "ekind": ekind, "kkind": kkind, "pool": pool, "kpool": kpool,
                "outer_opt": outer_opt, "inner_opt": inner_opt, "leaves": 2}
    layout = draw(st.sampled_from(list(layouts)))
    if layout == "2level_primitive":
        inner_opt = False
    node = dremel.list_schema(name, dict(enode), list_optional=outer_opt, element_optional=inner_opt, layout=layout)
    if layout == "3level":
        # the names of the repeated group and of the element are conventions, not part of the structure: Hive writes
        # bag.array_element, older parquet-cpp list.item (the names `array` and `<column>_tuple` are left out: with a single
        # child they mean a two-level list to the backward-compatibility rules)
        mid, el = draw(st.sampled_from([("list", "element"), ("list", "element"), ("list", "item"), ("bag", "array_element"),
                                        ("a", "b")]))
        node["children"][0]["name"] = mid
        node["children"][0]["children"][0]["name"] = el
    return {"node": node, "shape": "list", "layout": layout, "ekind": ekind, "pool": pool,
            "outer_opt": outer_opt, "inner_opt": inner_opt, "leaves": 1}


@st.composite
def nested_rows(draw, col, n, null_heavy=False):
    rows = []
    for _ in range(n):
        k = draw(st.integers(0, 9))
        if (k == 0 or (null_heavy and k >= 7)) and col["outer_opt"]:
            rows.append(None)
            continue
        ln = 0 if k == 1 else draw(st.integers(0, 6))
        if col["shape"] == "map":
            keys = draw(st.lists(st.sampled_from(col["kpool"]), max_size=min(ln, len(col["kpool"])), unique_by=lambda x: repr(x)))
            row = []
            for kk in keys:
                v = None if (col["inner_opt"] and draw(st.integers(0, 4)) == 0) else draw(st.sampled_from(col["pool"]))
                row.append([kk, v])
            rows.append(row)
        else:
            row = []
            for _ in range(ln):
                row.append(None if (col["inner_opt"] and draw(st.integers(0, 4)) == 0) else draw(st.sampled_from(col["pool"])))
            rows.append(row)
    return rows


def _entries(col, rows):
    """Number of level entries a chunk of these rows has (one per element, one per null/empty row)."""
    return sum(max(1, len(r)) if r is not None else 1 for r in rows)


@st.composite
def nested_plan(draw, thorough=False, layouts=("3level",), allow_v2=True, allow_map=True, v2_working=False):
    """v2_working: aim at the v2 layout the library does assemble - every page DATA_PAGE_V2, dictionary-encoded and
    holding nulls, outer level OPTIONAL (whether a drawn case really is inside that region is decided from the file)."""
    ncols = draw(st.sampled_from([1, 1, 2]))
    cols = [draw(nested_column("n%d" % i, layouts=layouts, allow_map=allow_map, force_outer_opt=v2_working)) for i in range(ncols)]
    if v2_working:
        cols = [c for c in cols if c["ekind"] != "bool"] or [draw(nested_column("n0", layouts=layouts, allow_map=False, force_outer_opt=True)
                                                                   .filter(lambda c: c["ekind"] != "bool"))]
    n_groups = draw(st.sampled_from([1, 1, 2, 3]))
    rgs = []
    for g in range(n_groups):
        n = draw(st.one_of(st.integers(0, 12), st.sampled_from([0, 1, 8, 9, 30 if not thorough else 100])))
        data, chunks = {}, {}
        for c in cols:
            rows = draw(nested_rows(c, n, null_heavy=v2_working))
            name = c["node"]["name"]
            data[name] = rows
            total = _entries(c, rows)
            version = draw(st.sampled_from([1, 1, 2])) if allow_v2 else 1
            enc = draw(st.sampled_from(["PLAIN", "PLAIN", "RLE_DICTIONARY", "PLAIN_DICTIONARY"]))
            if v2_working:
                version, enc = 2, draw(st.sampled_from(["RLE_DICTIONARY", "PLAIN_DICTIONARY"]))
            if c["ekind"] == "bool":
                enc = "PLAIN"     # dictionary-encoded booleans: legal, but no mainstream writer produces them
            leafpaths = _leaf_paths(c["node"])
            for lp in leafpaths:
                npages = draw(st.sampled_from([1, 1, 2, 3, 5] if not v2_working else [1, 2, 2, 3]))
                pages, left = [], total
                for pi in range(npages):
                    pn = None if pi == npages - 1 else draw(st.integers(0, max(0, left)))
                    page = {"n": pn, "version": version, "encoding": enc}
                    if enc != "PLAIN" and pi > 0 and not v2_working and (pages[-1]["encoding"] == "PLAIN" or draw(st.integers(0, 3)) == 0):
                        # dictionary fallback: once a writer gives up its dictionary the rest of the chunk is PLAIN
                        page["encoding"] = "PLAIN"
                    if page["encoding"] != "PLAIN":
                        page["bit_width"] = draw(st.one_of(st.none(), st.integers(0, 12)))
                    if draw(st.integers(0, 2)) == 0:
                        page["def_runs"] = draw(run_plan(left if pn is None else pn))
                        page["rep_runs"] = draw(run_plan(left if pn is None else pn))
                    if version == 2:
                        page["is_compressed"] = draw(st.sampled_from([None, True, False]))
                    pages.append(page)
                    if pn is not None:
                        left -= pn
                chunks[lp] = {"codec": draw(st.sampled_from(CODECS)), "pages": pages}
                if draw(st.integers(0, 2)) == 0:
                    # chunk statistics with a null count, in either of the two conventions writers follow for repeated columns
                    chunks[lp]["stats"] = draw(st.sampled_from([True, {"fields": ["null_count"]}]))
                    chunks[lp]["null_count_mode"] = draw(st.sampled_from(["entries", "leaf_values"]))
        rgs.append({"data": data, "chunks": chunks})
    plan = {"schema": [c["node"] for c in cols], "row_groups": rgs,
            "created_by": draw(st.sampled_from(["parquet-mr version 1.12.3 (build abc)", "parquet-cpp-arrow version 14.0.1"]))}
    return {"plan": plan, "cols": [{k: v for k, v in c.items() if k not in ("node", "pool", "kpool")} | {"name": c["node"]["name"]} for c in cols]}


def _leaf_paths(node, prefix=""):
    p = prefix + node["name"]
    if "children" not in node:
        return [p]
    out = []
    for ch in node["children"]:
        out += _leaf_paths(ch, p + ".")
    return out
