"""Hypothesis strategies for *frame cases* and *write-option cases*.

A frame case is plain JSON-able data (see vf/cases.py for how a DataFrame and the
expected logical table are built from it, deterministically):

  {"n": rows,
   "cols": [{"name", "kind", "sub", "pool": [...], "idx": [...],
             "null": {"pat": ..., "mask": [...]}, ...kind specific...}],
   "index": None | column-spec-with-"name"}

Cell i of a column is pool[idx[i % len(idx)] % len(pool)], unless the null pattern
marks row i missing.  With len(idx) <= 24 every sequence over the pool is reachable
for small frames, while frames of 8193 rows stay cheap to draw and to replay.
"""
import string

from hypothesis import strategies as st

NULL_PATS = ["none", "some", "all", "first_only", "last_only", "all_but_one"]

INT_SUBS = ["int8", "int16", "int32", "int64", "uint8", "uint16", "uint32", "uint64"]
NULLABLE_SUBS = ["Int8", "Int16", "Int32", "Int64", "UInt8", "UInt16", "UInt32", "UInt64", "boolean"]
UNITS = ["s", "ms", "us", "ns"]
TZS = [None, None, "UTC", "Europe/London", "America/St_Johns", "+03:00", "-09:30"]

# (504/505/513: where the run header of the definition levels of one page starts to need two bytes)
ROWS_QUICK = [0, 1, 2, 3, 5, 7, 8, 9, 15, 16, 17, 31, 33, 63, 64, 65, 504, 505, 513]
ROWS_THOROUGH = ROWS_QUICK + [127, 128, 129, 255, 257, 1000, 1024, 8191, 8192, 8193]

ALL_KINDS = ["bool", "int", "float", "text", "bytes", "json", "datetime", "timedelta", "category", "nullable", "pyobj"]


def int_range(sub):
    s = sub.lower()
    bits = int(s.replace("uint", "").replace("int", ""))
    if s.startswith("u"):
        return 0, 2 ** bits - 1
    return -(2 ** (bits - 1)), 2 ** (bits - 1) - 1


def _wide(lim):
    """Integers spread over the whole range [-lim, lim] with arbitrary low bits.  st.integers alone favours small
    magnitudes and the range ends; the drawn value goes through a fixed bijection of 64-bit words (a multiplication by an
    odd constant), which keeps the case a pure function of the draw and scatters it over the range."""
    if lim < 2 ** 24:
        return st.integers(-lim, lim)
    return st.integers(0, 2 ** 64 - 1).map(lambda x: ((x * 0x9E3779B97F4A7C15 + 0x7F4A7C15) % (2 ** 64)) % (2 * lim + 1) - lim)


def ints_for(sub):
    lo, hi = int_range(sub)
    edge = st.sampled_from(sorted({lo, lo + 1, -1 if lo < 0 else 0, 0, 1, hi - 1, hi,
                                   min(hi, 127), min(hi, 128), min(hi, 255), min(hi, 256),
                                   min(hi, 2 ** 31 - 1), min(hi, 2 ** 31), min(hi, 2 ** 63 - 1)}))
    wide = _wide(hi).map(lambda v: v if v >= lo else -v)
    return st.one_of(edge, st.integers(lo, hi), wide, st.integers(max(lo, -200), min(hi, 200)))


def floats_for(sub):
    width = 32 if sub == "float32" else 64
    return st.one_of(
        st.floats(width=width, allow_nan=False),
        st.sampled_from([0.0, -0.0, 1.0, -1.0, float("inf"), float("-inf"), 0.5, 1e-40 if width == 64 else 0.0]),
        st.floats(min_value=-1000, max_value=1000, width=width),
    )


_text_alpha = st.one_of(
    st.text(alphabet=string.ascii_letters + string.digits + " _-", max_size=6),
    st.text(max_size=5),                                   # any unicode without surrogates
    st.sampled_from(["", "a", "A", "é", "z", "zz", "ab", "ÿ", "Ā", "\U0001f600", "ÿ", "Z", "aa",
                     "1", "02", "0.7", "1e5", "True", "nan", "None", "NULL", "2020-01-01"]),
    # long values sharing a long prefix (URLs, paths): bounds that differ only beyond 64 bytes
    st.sampled_from(["p" * 70 + "a", "p" * 70 + "b", "p" * 70, "p" * 64, "p" * 63 + "q", "é" * 40 + "z", "é" * 40]),
)


def text_values(nul_ok):
    if nul_ok:
        return st.one_of(_text_alpha, st.sampled_from(["\x00", "a\x00b", "a\x00", "\x00", "z\x00\x00"]))
    return _text_alpha.filter(lambda s: "\x00" not in s)


bytes_values = st.one_of(st.binary(max_size=6), st.sampled_from([b"", b"\x00", b"\xff", b"\xff\xfe", b"abc", b"\x80"])).map(
    lambda b: b.hex())

_json_leaf = st.one_of(st.none(), st.booleans(), st.integers(-2 ** 53 + 1, 2 ** 53 - 1),
                       st.floats(allow_nan=False, allow_infinity=False, width=64).filter(lambda x: x == 0 or abs(x) > 1e-300),
                       st.text(max_size=4))
_json_tree = st.recursive(_json_leaf, lambda ch: st.one_of(st.lists(ch, max_size=3),
                                                           st.dictionaries(st.text(max_size=3), ch, max_size=3)),
                          max_leaves=6)
json_values = st.one_of(st.lists(_json_tree, max_size=3), st.dictionaries(st.text(max_size=3), _json_tree, max_size=3))

# tick bounds: the value must be representable when expressed in ns (INT96 and
# several pandas paths go through ns) -> +-(2**63-1) ns, divided by the unit size.
UNIT_NS = {"s": 10 ** 9, "ms": 10 ** 6, "us": 10 ** 3, "ns": 1}


def ticks_for(unit, kind):
    lim = (2 ** 63 - 1) // UNIT_NS[unit]
    if kind == "datetime":
        lo, hi = -lim + 1, lim - 1
        # keep away from the pandas Timestamp limits by a day so tz conversion cannot overflow
        day = 86400 * 10 ** 9 // UNIT_NS[unit]
        lo, hi = lo + 2 * day, hi - 2 * day
        near = [0, 1, -1, 86399 * (10 ** 9 // UNIT_NS[unit]), 1585443600 * 10 ** 9 // UNIT_NS[unit],  # DST change 2020-03-29
                1603587600 * 10 ** 9 // UNIT_NS[unit], lo, hi]
        return st.one_of(st.sampled_from(near), st.integers(lo, hi), _wide(hi),
                         st.integers(0, 2 * 10 ** 9 * 10 ** 9 // UNIT_NS[unit]))
    # timedelta: whole microseconds and the microsecond count fits int64
    if unit == "ns":
        us = st.one_of(st.integers(-(2 ** 63 - 1) // 1000 + 1, (2 ** 63 - 1) // 1000 - 1), _wide((2 ** 63 - 1) // 1000 - 1),
                       st.integers(-10 ** 9, 10 ** 9), st.sampled_from([0, 1, -1]))
        return us.map(lambda u: u * 1000)
    lim_us = (2 ** 63 - 1) // max(1, UNIT_NS[unit] // 1000)
    lim2 = min(lim, lim_us) - 1
    return st.one_of(st.integers(-lim2, lim2), _wide(lim2), st.integers(-10 ** 6, 10 ** 6), st.sampled_from([0, 1, -1]))


@st.composite
def null_spec(draw, allowed=True, bias=None):
    if not allowed:
        return {"pat": "none", "mask": []}
    pat = draw(st.sampled_from(bias or ["none", "none", "some", "some", "some", "all", "first_only",
                                        "last_only", "all_but_one"]))
    mask = draw(st.lists(st.booleans(), min_size=1, max_size=24)) if pat == "some" else []
    return {"pat": pat, "mask": mask}


_names = st.one_of(st.sampled_from(["a", "b", "c", "x", "y", "z", "col", "A", "value", "idx", "index", "é", "a b", "0", "a.b"]),
                   # ("_rid" is the harness's own row-id column; Hypothesis does pick such constants up from the sources)
                   st.text(alphabet=string.ascii_letters + "_", min_size=1, max_size=5).filter(lambda s: s != "_rid"))


@st.composite
def column(draw, name, kinds=ALL_KINDS, thorough=False, nulls=True, subs=None, like=None):
    """`like`: an existing column spec whose static attributes (kind, sub, unit, tz, label
    kind, ordered) are kept, so that the new column is schema-compatible with it."""
    if like is not None:
        kinds = [like["kind"]]
        if like.get("sub"):
            subs = [like["sub"]]
    kind = draw(st.sampled_from(kinds))
    col = {"name": name, "kind": kind}
    idx = draw(st.lists(st.integers(0, 11), min_size=1, max_size=24))
    col["idx"] = idx
    if kind == "bool":
        col["pool"] = draw(st.lists(st.booleans(), min_size=1, max_size=3))
        col["null"] = {"pat": "none", "mask": []}
    elif kind == "int":
        sub = draw(st.sampled_from(subs or INT_SUBS))
        col["sub"] = sub
        col["pool"] = draw(st.lists(ints_for(sub), min_size=1, max_size=12))
        col["null"] = {"pat": "none", "mask": []}
    elif kind == "float":
        sub = draw(st.sampled_from([like["sub"]] if like else ["float32", "float64"]))
        col["sub"] = sub
        col["pool"] = draw(st.lists(floats_for(sub), min_size=1, max_size=12))
        col["null"] = draw(null_spec(nulls))
    elif kind == "text":
        col["sub"] = draw(st.sampled_from([like["sub"]] if like else ["object", "object", "str"]))
        col["pool"] = draw(st.lists(text_values(thorough), min_size=1, max_size=12))
        col["null"] = draw(null_spec(nulls))
    elif kind == "bytes":
        col["pool"] = draw(st.lists(bytes_values, min_size=1, max_size=12))
        col["null"] = draw(null_spec(nulls))
    elif kind == "json":
        col["pool"] = draw(st.lists(json_values, min_size=1, max_size=6))
        col["null"] = draw(null_spec(nulls))
    elif kind in ("datetime", "timedelta"):
        unit = draw(st.sampled_from([like["unit"]] if like else UNITS))
        col["unit"] = unit
        if kind == "datetime":
            col["tz"] = draw(st.sampled_from([like.get("tz")] if like else TZS))
        col["pool"] = draw(st.lists(ticks_for(unit, kind), min_size=1, max_size=12))
        col["null"] = draw(null_spec(nulls))
    elif kind == "category":
        lk = draw(st.sampled_from([like["labels"]] if like else ["text", "text", "int", "float", "bool"]))
        col["labels"] = lk
        if lk == "text":
            cats = draw(st.lists(text_values(False), min_size=1, max_size=10, unique=True))
        elif lk == "int":
            cats = draw(st.lists(st.integers(-2 ** 40, 2 ** 40), min_size=1, max_size=10, unique=True))
        elif lk == "bool":
            cats = draw(st.sampled_from([[False, True], [True, False], [True], [False]]))
        else:
            cats = draw(st.lists(st.floats(allow_nan=False, width=64), min_size=1, max_size=10,
                                 unique_by=lambda x: (x, str(x))).filter(
                lambda l: len({float(x) for x in l}) == len(l)))
        if thorough and lk in ("text", "int") and draw(st.integers(0, 40)) == 0:
            # many categories: cross the int8 / int16 code-width boundaries
            big = draw(st.sampled_from([127, 128, 129, 300]))
            cats = (["c%05d" % i for i in range(big)] if lk == "text" else list(range(1000, 1000 + big)))
        col["cats"] = cats
        col["ordered"] = like.get("ordered", False) if like else draw(st.booleans())
        col["null"] = draw(null_spec(nulls))
        if not like and nulls and lk == "text" and draw(st.integers(0, 24)) == 0:
            # no category at all: every cell is missing
            col["cats"] = []
            col["null"] = {"pat": "all", "mask": []}
    elif kind == "pyobj":
        # object-dtype column of Python ints / bools / floats (stored as INT64 / BOOLEAN / DOUBLE) with None for missing
        sub = draw(st.sampled_from(subs or ["int", "int", "bool", "float"]))
        col["sub"] = sub
        if sub == "bool":
            col["pool"] = draw(st.lists(st.booleans(), min_size=1, max_size=3))
        elif sub == "int":
            col["pool"] = draw(st.lists(ints_for("int64"), min_size=1, max_size=12))
        else:
            col["pool"] = draw(st.lists(st.floats(allow_nan=False, width=64), min_size=1, max_size=12))
        col["null"] = draw(null_spec(nulls))
    elif kind == "nullable":
        sub = draw(st.sampled_from(subs or NULLABLE_SUBS))
        col["sub"] = sub
        if sub == "boolean":
            col["pool"] = draw(st.lists(st.booleans(), min_size=1, max_size=3))
        else:
            col["pool"] = draw(st.lists(ints_for(sub), min_size=1, max_size=12))
        col["null"] = draw(null_spec(nulls))
    return col


@st.composite
def frame(draw, thorough=False, kinds=ALL_KINDS, min_cols=1, max_cols=None, rows=None, index=True,
          nulls=True, min_rows=0):
    rows = rows or (ROWS_THOROUGH if thorough else ROWS_QUICK)
    n = draw(st.one_of(st.sampled_from([r for r in rows if r >= min_rows]), st.integers(min_rows, 40)))
    max_cols = max_cols or (12 if thorough and draw(st.integers(0, 5)) == 0 else 5)
    ncols = draw(st.integers(min_cols, max_cols))
    names = draw(st.lists(_names, min_size=ncols, max_size=ncols, unique=True))
    cols = [draw(column(nm, kinds=kinds, thorough=thorough, nulls=nulls)) for nm in names]
    idx = None
    if index and draw(st.integers(0, 3)) == 0:
        iname = draw(st.one_of(st.none(), st.sampled_from(["i", "idx", "index", "key", "ts"])))
        if iname in names:
            iname = iname + "_"
        idx = draw(column(iname, kinds=["int", "text", "datetime", "float"], thorough=thorough, nulls=False))
    return {"n": n, "cols": cols, "index": idx}


# ------------------------------------------------------------------ options
CODECS = [None, "UNCOMPRESSED", "SNAPPY", "GZIP", "ZSTD", "LZ4", "BROTLI", "snappy", "gzip", "zstd", "lz4", "brotli"]


@st.composite
def compression(draw, colnames):
    k = draw(st.integers(0, 9))
    if k <= 5:
        return draw(st.sampled_from(CODECS))
    if k <= 7:
        d = {}
        for c in colnames:
            if draw(st.booleans()):
                d[c] = draw(st.sampled_from(CODECS))
        if draw(st.booleans()):
            d["_default"] = draw(st.sampled_from(CODECS))
        return d
    # {col: {"type":..., "args":...}} form
    d = {}
    for c in colnames:
        if draw(st.booleans()):
            t = draw(st.sampled_from(["GZIP", "SNAPPY", "ZSTD", "LZ4", "BROTLI"]))
            args = None
            if t == "GZIP" and draw(st.booleans()):
                args = {"compresslevel": draw(st.integers(1, 9))}
            elif t == "ZSTD" and draw(st.booleans()):
                args = {"level": draw(st.integers(1, 10))}
            d[c] = {"type": t, "args": args}
    d["_default"] = {"type": draw(st.sampled_from(["GZIP", "SNAPPY", "ZSTD"])), "args": None}
    return d


@st.composite
def row_group_offsets(draw, n):
    k = draw(st.integers(0, 5))
    if k <= 1:
        return None
    if k <= 3:
        return draw(st.one_of(st.integers(1, max(1, n)), st.sampled_from([1, 2, 3, 8, 50])))
    if n <= 1:
        return [0]
    cuts = draw(st.lists(st.integers(1, n - 1), max_size=4, unique=True))
    return [0] + sorted(cuts)


@st.composite
def options(draw, fr, schemes=("simple", "simple", "hive", "drill"), thorough=False):
    cols = fr["cols"]
    names = [c["name"] for c in cols]
    allnames = names + ([fr["index"]["name"] or "index"] if fr["index"] else [])
    o = {}
    o["compression"] = draw(compression(allnames))
    o["rgo"] = draw(row_group_offsets(fr["n"]))
    hn = draw(st.integers(0, 6))
    o["has_nulls"] = (True if hn <= 2 else False if hn == 3 else "infer" if hn == 4
                      else [c for c in allnames if draw(st.booleans())])
    sk = draw(st.integers(0, 4))
    o["stats"] = (True if sk == 0 else False if sk == 1 else "auto" if sk <= 3
                  else [c for c in allnames if draw(st.booleans())])
    o["times"] = draw(st.sampled_from(["int64", "int64", "int64", "int96"]))
    oe = "infer"
    if draw(st.integers(0, 3)) == 0:
        oe = {}
        for c in cols + ([fr["index"]] if fr["index"] else []):
            if c["kind"] in ("text", "bytes", "json") and c.get("sub") != "str" and draw(st.booleans()):
                oe[c["name"] or "index"] = {"text": "utf8", "bytes": "bytes", "json": "json"}[c["kind"]]
            if c["kind"] == "pyobj" and draw(st.booleans()):
                oe[c["name"] or "index"] = c["sub"]
        for c in allnames:
            oe.setdefault(c, "infer")
    o["object_encoding"] = oe
    o["file_scheme"] = draw(st.sampled_from(list(schemes)))
    o["write_index"] = draw(st.sampled_from([None, None, True, False]))
    o["page_size"] = draw(st.sampled_from([None, None, None, 16, 24, 32, 48, 64, 100, 128, 256, 1024, 4096]))
    o["dpv"] = draw(st.sampled_from([1, 1, 2, 2]))
    return o


@st.composite
def frame_and_options(draw, thorough=False, **kw):
    opt_kw = {k: kw.pop(k) for k in ("schemes",) if k in kw}
    fr = draw(frame(thorough=thorough, **kw))
    return {"frame": fr, "opts": draw(options(fr, thorough=thorough, **opt_kw))}


def extend_labels(cats, kind, k):
    """k further labels of the kind of `cats`, none of them in it."""
    out, i = [], 0
    have = set(map(repr, cats))
    while len(out) < k:
        v = {"text": "ext%04d" % i, "int": 100000 + i, "float": 1000.5 + i}.get(kind)
        if v is None:
            break
        if repr(v) not in have:
            out.append(v)
        i += 1
    return list(cats) + out


@st.composite
def compatible_frame(draw, fr, thorough=False, rows=None, same_categories=False, extend_categories=None):
    """A frame with the same column names, dtypes and index shape as `fr`, fresh values."""
    rows = rows or [0, 1, 2, 3, 5, 8, 9, 17]
    n = draw(st.one_of(st.sampled_from(rows), st.integers(0, 12)))
    cols = []
    for c in fr["cols"]:
        nc = draw(column(c["name"], thorough=thorough, like=c,
                         nulls=(c.get("null") or {}).get("pat", "none") != "none" or c["kind"] not in ("bool", "int")))
        if same_categories and c["kind"] == "category":
            nc["cats"] = list(c["cats"])
        if extend_categories is not None and c["kind"] == "category":
            # the same labels at the same codes, and some more behind them
            nc["cats"] = extend_labels(c["cats"], c.get("labels", "text"), extend_categories)
        cols.append(nc)
    idx = None
    if fr.get("index") is not None:
        idx = draw(column(fr["index"]["name"], thorough=thorough, like=fr["index"], nulls=False))
    return {"n": n, "cols": cols, "index": idx}


OBJ_KINDS = ("text", "bytes", "json", "pyobj")


def pin_object_schema(fr):
    """The stored type of an object column is inferred from its first non-null values; a
    create frame whose text/bytes/json column is entirely null would pin a different schema
    than later batches need.  Make sure such columns hold at least one value."""
    for c in fr["cols"] + ([fr["index"]] if fr.get("index") else []):
        if c["kind"] in OBJ_KINDS and (c.get("null") or {}).get("pat") in ("all",):
            c["null"] = {"pat": "last_only", "mask": []}
        if c["kind"] in OBJ_KINDS and (c.get("null") or {}).get("pat") in ("first_only", "last_only", "all_but_one") and fr["n"] == 1:
            c["null"] = {"pat": "none", "mask": []}
        if c["kind"] in OBJ_KINDS and (c.get("null") or {}).get("pat") == "some":
            m = c["null"]["mask"]
            if m and all(m[i % len(m)] for i in range(max(1, fr["n"]))):
                c["null"] = {"pat": "none", "mask": []}
    return fr
