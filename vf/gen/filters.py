"""Filter programs over a dataset case.

  filters = {"flat": bool, "groups": [[cond, ...], ...]}      cond = {"col", "op", "val"}
  val = constant encoding {"k": "int|float|str|bool|ts", ...} or a list of them (in / not in)

Constants are drawn from the data (present values, neighbours, global bounds),
outside the range, and of a comparable other type."""
from hypothesis import strategies as st

from vf import cases
from vf.cases import MISSING

OPS = ["==", "=", "!=", "<", "<=", ">", ">=", "in", "not in"]
FILTERABLE = ("int", "float", "text", "datetime", "category", "nullable", "bool")


def build_const(enc):
    """Python constant handed to the library."""
    import numpy as np
    import pandas as pd
    if isinstance(enc, list):
        return [build_const(e) for e in enc]
    k = enc["k"]
    if k == "int":
        return int(enc["v"])
    if k == "float":
        return float(enc["v"])
    if k == "str":
        return str(enc["v"])
    if k == "bool":
        return bool(enc["v"])
    if k == "ts":
        if enc.get("as") == "datetime64":
            return np.datetime64(int(enc["ns"]), "ns")
        return pd.Timestamp(int(enc["ns"]), unit="ns")
    raise ValueError(k)


def model_const(enc):
    """Value used by the model: numbers as numbers, text as str, instants as ns int tagged."""
    if isinstance(enc, list):
        return [model_const(e) for e in enc]
    k = enc["k"]
    if k == "ts":
        return ("ts", int(enc["ns"]))
    if k == "str":
        return str(enc["v"])
    if k == "bool":
        return bool(enc["v"])
    if k == "int":
        return int(enc["v"])
    return float(enc["v"])


def cell_values(col, n):
    """Model values of the cells of a column: numbers / str / ('ts', ns) / MISSING."""
    out = []
    for v in cases.raw_values(col, n):
        out.append(model_cell(col, v))
    return out


def model_cell(col, v):
    if v is MISSING:
        return MISSING
    k = col["kind"]
    if k == "datetime":
        return ("ts", int(v) * cases.UNIT_NS[col["unit"]])
    if k == "float":
        import numpy as np
        f = float(np.float32(v)) if col.get("sub") == "float32" else float(v)
        return MISSING if f != f else f
    if k == "category":
        if col["labels"] == "text":
            return str(v)
        if col["labels"] == "bool":
            return bool(v)
        return int(v) if col["labels"] == "int" else float(v)
    if k == "text":
        return str(v)
    if k == "bool":
        return bool(v)
    if k == "nullable":
        return bool(v) if col["sub"] == "boolean" else int(v)
    return int(v)


def _enc(col, x, draw=None):
    """Constant encoding of a model value."""
    if isinstance(x, tuple) and x and x[0] == "ts":
        return {"k": "ts", "ns": x[1], "as": "Timestamp"}
    if isinstance(x, bool):
        return {"k": "bool", "v": x}
    if isinstance(x, int):
        return {"k": "int", "v": x}
    if isinstance(x, float):
        return {"k": "float", "v": x}
    return {"k": "str", "v": x}




def _int_const(draw, v, vals, how):
    if True:
        if how <= 4:
            return {"k": "int", "v": v}
        if how <= 6:
            return {"k": "int", "v": v + draw(st.sampled_from([-1, 1]))}
        if how == 7:
            return {"k": "int", "v": draw(st.sampled_from([min(vals) - 1, max(vals) + 1, min(vals) - 1000, max(vals) + 1000]))}
        if how == 8 and abs(v) < 2 ** 52:
            return {"k": "float", "v": float(v) + draw(st.sampled_from([0.0, 0.5, -0.5]))}
        return {"k": "int", "v": draw(st.integers(min(vals) - 2, max(vals) + 2))}


@st.composite
def constant(draw, col, n):
    vals = [v for v in cell_values(col, n) if v is not MISSING]
    kind = col["kind"]
    if not vals:
        base = {"datetime": ("ts", 0), "text": "a", "float": 0.0, "bool": False}.get(kind, 0)
        if kind == "category":
            base = "a" if col["labels"] == "text" else False if col["labels"] == "bool" else 0
        vals = [base]
    v = draw(st.sampled_from(sorted(set(vals), key=repr)))
    how = draw(st.integers(0, 9))
    if isinstance(v, tuple):          # instants
        ns = v[1]
        if how <= 4:
            pass
        elif how <= 6:
            ns += draw(st.sampled_from([-1, 1, -10 ** 9, 10 ** 9, -86400 * 10 ** 9, 86400 * 10 ** 9]))
        elif how == 7:
            ns = min(x[1] for x in vals) - draw(st.integers(1, 10 ** 12))
        else:
            ns = max(x[1] for x in vals) + draw(st.integers(1, 10 ** 12))
        ns = max(-(2 ** 62), min(2 ** 62, ns))
        return {"k": "ts", "ns": ns, "as": draw(st.sampled_from(["Timestamp", "datetime64"]))}
    if isinstance(v, bool):
        return {"k": "bool", "v": draw(st.booleans()) if how > 6 else v}
    if isinstance(v, int):
        c = _int_const(draw, v, vals, how)
        if c["k"] == "int":
            # stay inside what an integer column can be compared with exactly: beyond the
            # 64-bit range pandas/numpy fall back to float64 and equality becomes approximate
            hi = 2 ** 64 - 1 if col.get("sub", "").lower() == "uint64" else 2 ** 63 - 1
            c["v"] = max(-(2 ** 63), min(hi, c["v"]))
        return c
    if isinstance(v, float):
        import math
        if how <= 4 or not math.isfinite(v):
            return {"k": "float", "v": v}
        if how <= 6:
            return {"k": "float", "v": math.nextafter(v, draw(st.sampled_from([-math.inf, math.inf])))}
        if how == 7:
            fin = [x for x in vals if math.isfinite(x)] or [0.0]
            return {"k": "float", "v": draw(st.sampled_from([min(fin) - 1.0, max(fin) + 1.0]))}
        if how == 8 and v == int(v) and abs(v) < 2 ** 52:
            return {"k": "int", "v": int(v)}
        return {"k": "float", "v": v}
    # text
    if how <= 5:
        return {"k": "str", "v": v.rstrip("\x00")}
    if how == 6:
        # (no trailing NUL: numpy strips it when a str is compared with an object array)
        return {"k": "str", "v": (v + draw(st.sampled_from(["", "a", " ", "z"]))).rstrip("\x00")}
    if how == 7:
        return {"k": "str", "v": v[:-1]}
    return {"k": "str", "v": draw(st.sampled_from(["", "a", "zzzz", "\U0010ffff", "0", "A"]))}


@st.composite
def condition(draw, cols, n):
    col = draw(st.sampled_from(cols))
    op = draw(st.sampled_from(OPS))
    if op in ("in", "not in"):
        k = draw(st.integers(0, 3))
        val = [draw(constant(col, n)) for _ in range(k)]
        # a value list is homogeneous in real use (it gets sorted): keep one constant class
        if val:
            k0 = val[0]["k"]
            val = [c for c in val if c["k"] == k0 or {c["k"], k0} <= {"int", "float"}]
    else:
        val = draw(constant(col, n))
    return {"col": col["name"], "op": op, "val": val}


@st.composite
def program(draw, cols, n, max_groups=3, max_conds=3):
    ngroups = draw(st.integers(1, max_groups))
    groups = []
    for _ in range(ngroups):
        k = draw(st.integers(1, max_conds))
        if len(cols) >= 2 and draw(st.booleans()):
            # one condition per column, over several different columns (interaction between columns of one AND group)
            pick = draw(st.permutations(cols))[: max(2, k)]
            groups.append([draw(condition([c], n)) for c in pick])
        else:
            groups.append([draw(condition(cols, n)) for _ in range(k)])
    flat = ngroups == 1 and draw(st.booleans())
    return {"flat": flat, "groups": groups, "conds_as_lists": draw(st.integers(0, 3)) == 0}


def to_api(prog, rename=None):
    # a condition is a 3-tuple, or (what the repository's own tests write) a 3-element list
    mk = list if prog.get("conds_as_lists") else tuple
    rename = rename or {}
    gs = [[mk((rename.get(c["col"], c["col"]), c["op"], build_const(c["val"]))) for c in g] for g in prog["groups"]]
    return gs[0] if prog["flat"] else gs
