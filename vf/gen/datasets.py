"""Dataset cases: a frame case + write options (+ directory partitioning).

Partition columns draw from small pools so that keys collide; their text form is a
single legal path segment by construction (no '/', '=', NUL, not '.'/'..', no
leading/trailing blanks, non-empty); numeric-looking text is favoured."""
import string

from hypothesis import strategies as st

from vf.gen import frames

SAFE_TEXT = st.one_of(
    st.sampled_from(["a", "b", "x", "1", "02", "0.7", ".7", "1e5", "True", "False", "nan", "None", "2020-01-01",
                     "A", "é", "ü", "a b", "a-b", "a_b", "10", "1.0", "-3", "inf", "NaT", "é",
                     "NAN", "Nan", "NAT", "nat", "TRUE", "none", "NULL",
                     # legal path segments that look like URL escapes, shell patterns or option syntax: stored and read verbatim
                     "a%20b", "%41", "100%25", "50%", "a+b", "~x", "#1", "a,b", "x;y", "(1)", "[a]", "{k}", "a&b", "$HOME", "*", "?",
                     "@", "!", "a:b", "'q'"]),
    st.text(alphabet=string.ascii_letters + string.digits + "_-.", min_size=1, max_size=4).filter(
        lambda s: s not in (".", "..")),
)

# different texts that parse to one number: distinct partitions all the same
SAME_NUMBER = [["1", "01", "1.0", "+1", "1e0"], ["0.5", ".5", "0.50"], ["10", "1e1", "10.0", "010"], ["-3", "-3.0", "-03"],
               ["7", "7.0", "07"]]


@st.composite
def text_pool(draw, max_size=4, min_size=None):
    if draw(st.integers(0, 3)) == 0:
        fam = draw(st.sampled_from(SAME_NUMBER))
        k = draw(st.integers(2, min(len(fam), max_size)))
        pool = list(draw(st.permutations(fam)))[:k]
        if len(pool) < max_size and draw(st.booleans()):
            extra = draw(SAFE_TEXT)
            if extra not in pool:
                pool.append(extra)
        return pool
    return draw(st.lists(SAFE_TEXT, min_size=draw(st.sampled_from([1, 2, 2])) if min_size is None else min_size,
                         max_size=max_size, unique=True))


DAY_NS = 86400 * 10 ** 9


@st.composite
def partition_column(draw, name, kinds=("int", "float", "bool", "datetime", "text", "category"), nulls=True, tz_aware=True):
    kind = draw(st.sampled_from(list(kinds)))
    col = {"name": name, "kind": kind, "idx": draw(st.lists(st.integers(0, 5), min_size=1, max_size=24))}
    null = {"pat": "none", "mask": []}
    if kind == "int":
        col["sub"] = draw(st.sampled_from(["int64", "int64", "int32", "int8", "uint16"]))
        lo = 0 if col["sub"].startswith("u") else -3
        small = st.integers(lo, 12)
        if col["sub"] == "int64" and draw(st.integers(0, 3)) == 0:
            # keys a float64 cannot tell apart
            small = st.one_of(small, st.sampled_from([2 ** 53 + 1, 2 ** 53 + 2, -(2 ** 53) - 1, 1234567890123456789, 1234567890123456790,
                                                      2 ** 63 - 1, -(2 ** 63) + 1]))
        col["pool"] = draw(st.lists(small, min_size=draw(st.sampled_from([1, 2, 2])), max_size=4, unique=True))
    elif kind == "float":
        col["sub"] = "float64"
        if draw(st.integers(0, 3)) == 0:
            col["ext"] = "Float64"      # the pandas masked float type
        # (some keys need all 17 significant digits: 0.1 + 0.2, 1 / 3, and a neighbour of 0.3 that agrees with it to 15)
        col["pool"] = draw(st.lists(st.sampled_from([0.5, 1.0, -2.25, 1e5, 0.7, 100.0, 3.0, -0.5, 2.5, 0.30000000000000004, 0.3,
                                                     0.3333333333333333, 0.6666666666666666, 1e-7, 123456789.12345679, 1e22]),
                                    min_size=1, max_size=4, unique=True))
        if nulls and draw(st.integers(0, 4)) == 0:
            null = draw(frames.null_spec(True, ["some", "first_only", "last_only"]))
    elif kind == "bool":
        col["pool"] = draw(st.sampled_from([[True, False], [False, True], [True], [False]]))
    elif kind == "datetime":
        col["unit"] = draw(st.sampled_from(["ns", "ns", "us", "s"]))
        col["tz"] = draw(st.sampled_from([None, None, None, "UTC", "Europe/Berlin", "America/New_York"])) if tz_aware else None
        per = DAY_NS // frames.UNIT_NS[col["unit"]]
        base = 18262 * per  # 2020-01-01
        cands = [base, base + per, base + 31 * per, base + per // 2, base + 3600 * (per // 86400), 0, base - 366 * per]
        # instants one hour apart that read the same on a wall clock: the hour repeated when clocks go back
        # (Europe/Berlin 2021-10-31 02:30, America/New_York 2021-11-07 01:30)
        sec = per // 86400
        cands += [1635640200 * sec, 1635643800 * sec, 1636263000 * sec, 1636266600 * sec]
        if col["unit"] == "ns":
            # instants that differ only below the microsecond, and with a sub-second part
            cands += [base + 1, base + 2, base + 1001, base + 123456789]
        elif col["unit"] == "us":
            cands += [base + 1, base + 1001]
        col["pool"] = draw(st.lists(st.sampled_from(cands), min_size=draw(st.sampled_from([1, 2, 2])), max_size=4, unique=True))
    elif kind == "text":
        col["sub"] = draw(st.sampled_from(["object", "object", "str"]))
        col["pool"] = draw(text_pool(4))
        if nulls and draw(st.integers(0, 4)) == 0:
            null = draw(frames.null_spec(True, ["some", "first_only", "last_only"]))
    else:
        col["labels"] = "text"
        col["cats"] = draw(text_pool(5, min_size=1))
        col["ordered"] = False
        if nulls and draw(st.integers(0, 4)) == 0:
            null = draw(frames.null_spec(True, ["some", "first_only"]))
    col["null"] = null
    return col


PNAMES = ["p", "q", "r", "year", "part", "k1", "key"]
# names that are not identifiers (a hive directory is "<name>=<value>": anything but '/' and '=' can be a name)
PNAMES_ODD = ["my-col", "a b", "größe", "k.1", "p", "q"]


# names of which one ends (or begins) another: a directory "grid=1" also contains the text "id=1"
PNAMES_SUFFIX = ["grid", "id", "d", "year", "ear", "yearly"]


@st.composite
def partitioned(draw, thorough=False, value_kinds=frames.ALL_KINDS, max_parts=3, pkinds=None, min_rows=0,
                schemes=("hive", "hive", "drill"), pnulls=True, max_value_cols=4):
    fr = draw(frames.frame(thorough=thorough, kinds=value_kinds, max_cols=max_value_cols, index=False, min_rows=min_rows,
                           rows=[0, 1, 2, 3, 5, 8, 9, 12, 17, 30]))
    used = {c["name"] for c in fr["cols"]}
    nparts = draw(st.integers(1, max_parts))
    pool = draw(st.sampled_from([PNAMES, PNAMES, PNAMES, PNAMES_ODD, PNAMES_SUFFIX, PNAMES_SUFFIX]))
    pnames = [n for n in pool if n not in used][:nparts]
    pcols = [draw(partition_column(n, **({"kinds": pkinds} if pkinds else {}), nulls=pnulls)) for n in pnames]
    # interleave partition columns among the value columns
    cols = list(fr["cols"])
    for pc in pcols:
        cols.insert(draw(st.integers(0, len(cols))), pc)
    fr = dict(fr, cols=cols)
    opts = draw(frames.options(fr, schemes=schemes, thorough=thorough))
    opts["write_index"] = False if draw(st.booleans()) else opts["write_index"]
    out = {"frame": fr, "opts": opts, "partition_on": draw(st.permutations(pnames))}
    if opts["write_index"] is False and draw(st.integers(0, 2)) == 0:
        out["row_labels"] = draw(st.lists(st.integers(0, 3), min_size=1, max_size=6))
    return out


@st.composite
def dataset(draw, thorough=False, partition_prob=3, **kw):
    """Either a plain C01 dataset (simple/hive/drill without partitions) or a partitioned one."""
    if draw(st.integers(0, 9)) < partition_prob:
        return draw(partitioned(thorough=thorough, **{k: v for k, v in kw.items()
                                                     if k in ("value_kinds", "max_parts", "pkinds", "min_rows")}))
    kw2 = {}
    if "value_kinds" in kw:
        kw2["kinds"] = kw["value_kinds"]
    if "min_rows" in kw:
        kw2["min_rows"] = kw["min_rows"]
    c = draw(frames.frame_and_options(thorough=thorough, **kw2))
    c["partition_on"] = []
    return c
