"""Fault-injecting filesystem layer passed to fastparquet through the public
`open_with` / `mkdirs` arguments.  Every open-for-write, write, close-of-a-writable
file and mkdir is a numbered event; event k raises InjectedIOError *instead of* (or,
for 'partial' write faults, half-way through) the real operation.  Reads pass through."""
import os


class InjectedIOError(OSError):
    pass


class FaultFS:
    def __init__(self, fail_at=None, partial=False, lose_on_close=False, exc=None, persist=False, count_reads=False):
        self.fail_at = fail_at
        # persist: from the failing call on every further write fails too (a full disk), opens still succeed
        self.persist = persist
        # count_reads: an open for reading is a numbered event as well (a transient read failure)
        self.count_reads = count_reads
        # what the failing call raises: an I/O error, or e.g. KeyboardInterrupt (the user's Ctrl-C arriving inside the call)
        self.exc = exc or InjectedIOError
        self.injected = False
        self.partial = partial
        # a failing close loses what was written since the open (a store that uploads on close, a failed final flush)
        self.lose_on_close = lose_on_close
        self.events = []          # (kind, path, info)
        self.open_files = []

    # -- event bookkeeping
    def _event(self, kind, path, info=None):
        self.events.append((kind, path, info))
        if self.fail_at is not None and len(self.events) == self.fail_at:
            self.injected = True
            return True
        return False

    def open_with(self, path, mode="rb"):
        path = str(path)
        if "w" in mode or "+" in mode or "a" in mode:
            existed = os.path.exists(path)
            if self._event("open_w", path, {"mode": mode, "existed": existed}):
                raise self.exc("injected failure of open(%r, %r)" % (path, mode))
            f = _File(self, open(path, mode), path)
            self.open_files.append(f)
            return f
        if self.count_reads and self._event("open_r", path, {"mode": mode}):
            raise self.exc("injected failure of open(%r, %r)" % (path, mode))
        return open(path, mode)

    def mkdirs(self, path):
        path = str(path)
        if self._event("mkdir", path, {"existed": os.path.isdir(path)}):
            raise self.exc("injected failure of mkdirs(%r)" % path)
        os.makedirs(path, exist_ok=True)

    def close_all(self):
        for f in self.open_files:
            try:
                f._f.close()
            except Exception:
                pass


class _File:
    def __init__(self, fs, f, path):
        self._fs, self._f, self._path = fs, f, path

    def write(self, data):
        if self._fs.persist and self._fs.injected:
            self._fs.events.append(("write", self._path, {"bytes": len(data), "refused": True}))
            raise self._fs.exc("injected failure of write(%d bytes) to %r (the fault persists)" % (len(data), self._path))
        if self._fs._event("write", self._path, {"bytes": len(data)}):
            if self._fs.partial:
                half = bytes(data)[: len(data) // 2]
                self._f.write(half)
                self._f.flush()
            raise self._fs.exc("injected failure of write(%d bytes) to %r" % (len(data), self._path))
        return self._f.write(data)

    def close(self):
        if self._f.closed:
            return
        if self._fs._event("close", self._path):
            if self._fs.lose_on_close:
                try:
                    self._f.seek(0)
                    self._f.truncate()
                except Exception:
                    pass
            self._f.close()
            raise self._fs.exc("injected failure of close(%r)" % self._path)
        self._f.close()

    def __enter__(self):
        return self

    def __exit__(self, *a):
        self.close()
        return False

    def __getattr__(self, name):
        return getattr(self._f, name)


def as_fsspec(core):
    """An fsspec filesystem (what dask hands to fastparquet as ``fs.open``) whose mutating calls are events of `core`:
    open-for-write / write / close / mkdir as above, plus rename and rm."""
    from fsspec.implementations.local import LocalFileSystem

    class FaultLocalFS(LocalFileSystem):
        cachable = False

        def open(self, path, mode="rb", **kw):
            return core.open_with(self._strip_protocol(path), mode)

        def mkdirs(self, path, exist_ok=True):
            return core.mkdirs(self._strip_protocol(path))

        def makedirs(self, path, exist_ok=True):
            return core.mkdirs(self._strip_protocol(path))

        def mv(self, path1, path2, **kw):
            path1, path2 = self._strip_protocol(path1), self._strip_protocol(path2)
            if core._event("rename", path1, {"to": path2}):
                raise InjectedIOError("injected failure of rename(%r, %r)" % (path1, path2))
            os.replace(path1, path2)

        def rename(self, path1, path2, **kw):
            return self.mv(path1, path2, **kw)

        def rm(self, path, recursive=False, maxdepth=None):
            for p in (path if isinstance(path, (list, tuple)) else [path]):
                p = self._strip_protocol(p)
                if core._event("rm", p):
                    raise InjectedIOError("injected failure of rm(%r)" % p)
                LocalFileSystem.rm(self, p, recursive=recursive)

        def rm_file(self, path):
            return self.rm(path)

    return FaultLocalFS()
