"""Evidence writer: evidence/<ID>.json, validated against the schema before writing."""
import json
import os

from vf import common

SCHEMA = "/root/.vp/EVIDENCE.schema.json"


def _validate(doc):
    try:
        import jsonschema
    except ImportError:
        jsonschema = None
    if jsonschema is not None and os.path.exists(SCHEMA):
        with open(SCHEMA) as f:
            jsonschema.validate(doc, json.load(f))
        return
    # minimal structural validation when jsonschema is unavailable
    for k in ("property_id", "tier", "seed", "level", "coverage", "wall_s"):
        assert k in doc, k
    cov = doc["coverage"]
    assert isinstance(cov.get("evaluations"), int) and cov["evaluations"] >= 1
    assert isinstance(cov.get("distinct_nontrivial"), int) and cov["distinct_nontrivial"] >= 2
    assert isinstance(cov.get("rule"), str)
    assert isinstance(cov.get("samples"), list) and cov["samples"]


def _finite(x):
    """Strict JSON has no NaN/Infinity: spell non-finite floats as strings."""
    if isinstance(x, float) and (x != x or x in (float("inf"), float("-inf"))):
        return repr(x)
    if isinstance(x, dict):
        return {str(k): _finite(v) for k, v in x.items()}
    if isinstance(x, (list, tuple)):
        return [_finite(v) for v in x]
    return x


def write(prop_id, tier, seed, level, coverage, assumptions, wall_s, violations):
    doc = {
        "property_id": prop_id,
        "tier": tier,
        "seed": int(seed),
        "level": level,
        "coverage": coverage,
        "assumptions": list(assumptions),
        "wall_s": round(float(wall_s), 3),
        "violations": int(violations),
    }
    text = json.dumps(_finite(doc), indent=1, sort_keys=True, default=str, allow_nan=False)
    doc2 = json.loads(text)
    _validate(doc2)
    os.makedirs(common.EVIDENCE, exist_ok=True)
    path = os.path.join(common.EVIDENCE, prop_id + ".json")
    with open(path + ".tmp", "w") as f:
        f.write(text + "\n")
    os.replace(path + ".tmp", path)
    return path
