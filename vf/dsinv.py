"""Agreement invariant between the summary metadata of a multi-file dataset and its
directory (used by C09, C18, C19): every referenced data file exists and holds the
stated number of rows, no unreferenced part file / temporary file is left behind, and
the schemas of _metadata, _common_metadata and the part files are equal."""
import os


def agreement(path, unreferenced_is_violation=True, check_schema=True):
    """Returns None or (aspect, detail)."""
    import fastparquet
    meta = os.path.join(path, "_metadata")
    if not os.path.exists(meta):
        return ("no_metadata", "no _metadata in %r" % sorted(os.listdir(path)))
    try:
        pf = fastparquet.ParquetFile(path)
    except Exception as e:
        return ("metadata_unreadable", "%s: %s" % (type(e).__name__, e))
    per_file = {}
    for rg in pf.row_groups:
        fp = rg.columns[0].file_path
        if not fp:
            return ("no_file_path", "a row group of _metadata has no file_path")
        def _s(x):
            return x.decode("utf8", "replace") if isinstance(x, (bytes, bytearray)) else str(x)
        others = sorted({_s(c.file_path) for c in rg.columns} - {_s(fp)})
        if others:
            # (this library follows the first chunk's path only; any other reader follows each chunk's own)
            return ("chunk_paths", "the column chunks of one row group point at different files: %r and %r" % (fp, others))
        per_file[fp] = per_file.get(fp, 0) + rg.num_rows
    total = sum(rg.num_rows for rg in pf.row_groups)
    if pf.fmd.num_rows != total:
        return ("summary_num_rows", "_metadata states %r rows, its row groups hold %d" % (pf.fmd.num_rows, total))
    schema0 = _schema_sig(pf)
    for fp, rows in sorted(per_file.items()):
        full = os.path.join(path, fp)
        if not os.path.exists(full):
            return ("missing_file", "referenced data file %r does not exist" % fp)
        try:
            part = fastparquet.ParquetFile(full)
            got = sum(rg.num_rows for rg in part.row_groups)
            nread = len(part.to_pandas())
        except Exception as e:
            return ("part_unreadable", "referenced data file %r cannot be read: %s: %s" % (fp, type(e).__name__, e))
        if got != rows or nread != rows:
            return ("row_count", "data file %r holds %d rows (%d read), _metadata says %d" % (fp, got, nread, rows))
        if check_schema and _schema_sig(part) != schema0:
            return ("schema_part", "schema of %r differs from _metadata" % fp)
    on_disk = []
    tmp = []
    for root, _, fns in os.walk(path):
        for fn in fns:
            rel = os.path.relpath(os.path.join(root, fn), path)
            if fn.endswith(".tmp"):
                tmp.append(rel)
            elif fn.endswith(".parquet") or fn.endswith(".parq"):
                on_disk.append(rel)
    if tmp:
        return ("tmp_left", "temporary files left behind: %r" % tmp)
    extra = sorted(set(on_disk) - set(per_file))
    if extra and unreferenced_is_violation:
        return ("unreferenced", "part files not referenced from _metadata: %r" % extra)
    if check_schema:
        cm = os.path.join(path, "_common_metadata")
        if os.path.exists(cm):
            try:
                pc = fastparquet.ParquetFile(cm)
            except Exception as e:
                return ("common_metadata_unreadable", "%s: %s" % (type(e).__name__, e))
            if _schema_sig(pc) != schema0:
                return ("schema_common", "_common_metadata schema differs from _metadata")
    return None


def _schema_sig(pf):
    out = []
    for se in pf._schema:
        out.append((se.name if isinstance(se.name, str) else se.name.decode(), se.type, se.type_length, se.repetition_type,
                    se.num_children, se.converted_type))
    return out
