"""C12 - native code stays inside its buffers and the process never crashes."""
import os
import re

from hypothesis import strategies as st

from vf import common
from vf.runner import discard, exc_detail, exc_sig, ok, viol

ID = "C12"
LEVEL = "exploration"
SANITIZED = True      # the whole check re-executes itself under the ASan+UBSan build of cencoding.c / speedups.c
RULE = ("The case streams of C03 (file plans from the specification-level encoder), C15 (nested plans), C10 (IDL-derived thrift "
        "values, here also with multi-hundred-kB strings), C01 (frames x write options through the library's own writer and back) "
        "and C11 (the exhaustive primitive lattice) are replayed inside processes "
        "that load an AddressSanitizer + UndefinedBehaviorSanitizer (shift-exponent, bounds, integer-divide-by-zero, null, "
        "unreachable, vla-bound) build of the generated C sources, in recover mode; after every case the per-process sanitizer "
        "log is inspected and any new report (kind, READ/WRITE, size, Cython function) is attributed to that case; a process "
        "that dies (signal / abort) is attributed to the case it was running. The semantic oracles of the source properties "
        "stay on inside the sanitised run but only sanitizer reports, crashes and hangs are violations here. Non-trivial: the "
        "case reaches native code with a buffer boundary in play (as the source property's own non-triviality rule).")
ASSUMPTIONS = [
    "only code compiled from fastparquet/cencoding.c and speedups.c is instrumented (numpy, cramjam, CPython are not)",
    "alignment, signed-integer-overflow and shift-base checks are off: unaligned loads are how every x86 Parquet reader works, the real "
    "build uses -fno-strict-overflow and DELTA decoding is specified to wrap",
    "ASan reports each faulting program counter once per process: a later case hitting the same site in the same shard is not re-reported",
    "no Cython in the sandbox: a change to a .pyx alone cannot take effect; a change to the generated .c is rebuilt automatically",
]
MANIFEST = {
    "category": "exploration",
    "technique": "sanitizer-instrumented property-based testing / fuzzing: generated and exhaustively enumerated inputs of C01/C03/C10/C11/C15 replayed under an ASan+UBSan build with per-case report attribution",
    "text": "All generated inputs of the decoding, thrift and primitive-codec properties are executed against an address- and "
            "undefined-behaviour-sanitised build of the extension modules; any sanitizer report or abnormal process end is a violation.",
    "note": "Trusted: clang 14 ASan/UBSan runtime; the attribution of reports by log growth between cases. Findings inside "
            "cencoding.pyx cannot be repaired here (no Cython) and are recorded as known findings with their minimal inputs.",
}
BUDGET = {"quick": {"shards": 16, "examples": 120, "wall": 115},
          "thorough": {"shards": 16, "examples": 4000, "wall": 1700}}
PROBE_ISOLATED = True
REPLAY_ISOLATED = True

SOURCES = {}


def _src(name):
    if name not in SOURCES:
        import importlib
        SOURCES[name] = importlib.import_module("vf.props." + name.lower())
    return SOURCES[name]


def strategy(tier):
    c01, c03, c10, c15 = _src("C01"), _src("C03"), _src("C10"), _src("C15")
    # (structures serialising to more than the 500000-byte buffer overflow the heap - recorded finding -
    #  and kill the worker: they are exercised by the isolated probes only)
    return st.one_of(
        c03.strategy(tier).map(lambda c: {"src": "C03", "case": c}),
        c03.strategy(tier).map(lambda c: {"src": "C03", "case": c}),
        c15.strategy(tier).map(lambda c: {"src": "C15", "case": c}),
        c15.strategy(tier).map(lambda c: {"src": "C15", "case": c}),
        c10.strategy("thorough").map(lambda c: {"src": "C10", "case": c}),
        # the library's own writer and the reader's fast paths for its own files (byte-array packing, UTF-8
        # encoding, level and dictionary-index encoders, time conversions) run natively too
        c01.strategy(tier).map(lambda c: {"src": "C01", "case": c}),
    )


def enumerate_cases(tier):
    for c in _src("C11").enumerate_cases("quick" if tier == "quick" else "thorough"):
        yield {"src": "C11", "case": c}


_LOG = {"path": None, "pos": 0}


def _log_path():
    d = os.environ.get("VF_ASAN_LOGDIR")
    if not d:
        return None
    return os.path.join(d, "san.%d" % os.getpid())


def _new_reports():
    """Text appended to this process's sanitizer log since the last call."""
    p = _log_path()
    if p is None:
        return ""
    if _LOG["path"] != p:
        _LOG["path"], _LOG["pos"] = p, 0
    try:
        size = os.path.getsize(p)
    except OSError:
        return ""
    if size <= _LOG["pos"]:
        return ""
    with open(p, "rb") as f:
        f.seek(_LOG["pos"])
        txt = f.read().decode("utf8", "replace")
    _LOG["pos"] = size
    return txt


_FUNC = re.compile(r"in (__pyx_\w+|\w+) .*?(cencoding|speedups)\.c")


def parse_report(txt):
    """(signature, short text) of the first sanitizer report in a log fragment."""
    kind = "report"
    m = re.search(r"ERROR: AddressSanitizer: ([\w-]+)", txt)
    if m:
        kind = "asan:" + m.group(1)
    else:
        m = re.search(r"runtime error: ([^\n]{0,80})", txt)
        if m:
            what = m.group(1)
            kind = "ubsan:" + ("shift" if "shift" in what else "bounds" if "out of bounds" in what else "divide" if "division" in what
                               else "null" if "null" in what else what.split()[0])
    rw = ""
    m = re.search(r"\b(READ|WRITE) of size (\d+)", txt)
    if m:
        rw = "%s%s" % (m.group(1), m.group(2) if int(m.group(2)) <= 8 else "N")
    func = "?"
    for line in txt.splitlines():
        m = re.search(r"#\d+ 0x[0-9a-f]+ in (\S+) .*(cencoding|speedups)\.c", line)
        if m:
            func = re.sub(r"^__pyx_\w*?(\d+)(cencoding|speedups)_(\d+)?", "", m.group(1))
            func = m.group(1)
            mm = re.search(r"(?:cencoding|speedups)_(?:\d+)?(\w+)$", m.group(1))
            if mm:
                func = mm.group(1)
            break
    else:
        m = re.search(r"(cencoding|speedups)\.c:\d+", txt)
    return "%s|%s|%s" % (kind, rw, func), txt[:1800]


def run_case(case):
    if os.environ.get("VF_EXT_VARIANT") != "asan":
        raise RuntimeError("C12 must run under the sanitised build (vf.cli re-executes itself for it)")
    _new_reports()       # drop anything not attributable (start-up noise)
    mod = _src(case["src"])
    inner = case["case"]
    labels = ["src:" + case["src"]]
    try:
        out = mod.run_case(inner)
    except Exception as e:
        # a failure of the source property's own harness is not a memory-safety matter
        out = {"st": "harness_inner", "nt": False, "labels": []}
        labels.append("inner_harness_error")
    txt = _new_reports()
    if txt.strip():
        sig, short = parse_report(txt)
        return viol("%s|%s" % (sig, case["src"]), short, labels=labels)
    st_ = out.get("st")
    labels.append("inner:" + str(st_))
    if st_ == "viol":
        if str(out.get("sig", "")).startswith(("hang",)):
            return viol("hang|" + case["src"], out.get("detail", ""), labels=labels)
        labels.append("inner_semantic_violation(not judged here)")
    res = ok(bool(out.get("nt")) or st_ == "viol", labels)
    if out.get("sub_evals"):
        res["sub_evals"] = out["sub_evals"]
        res["sub_nt"] = out.get("sub_nt", [])
    return res


def probes():
    c03, c10, c11 = _src("C03"), _src("C10"), _src("C11")
    out = []
    for fid, c in c10.probes():
        out.append(("C12-to-bytes-overflow" if fid.startswith("C10-") else fid, {"src": "C10", "case": c}))
    big_list = {"struct": "ColumnMetaData", "route": "build", "str_as_bytes": False, "allow_big": True,
                "value": {"type": 1, "encodings": [0], "path_in_schema": [{"str": "x" * 131072}] * 5, "codec": 0, "num_values": 1,
                          "total_uncompressed_size": 1, "total_compressed_size": 1, "data_page_offset": 4}}
    big_kv = {"struct": "RowGroup", "route": "reparse", "str_as_bytes": False, "allow_big": True,
              "value": {"columns": [{"file_offset": 0, "meta_data": {"type": 1, "encodings": [0], "path_in_schema": [{"str": "a"}], "codec": 0,
                                                                     "num_values": 1, "total_uncompressed_size": 1, "total_compressed_size": 1,
                                                                     "data_page_offset": 4,
                                                                     "statistics": {"max_value": {"hex": "7a" * 700000}}}}],
                        "total_byte_size": 1, "num_rows": 1}}
    out.append(("C12-to-bytes-overflow", {"src": "C10", "case": big_list}))
    out.append(("C12-to-bytes-overflow", {"src": "C10", "case": big_kv}))
    for fid, c in c03.probes():
        out.append(("C12-" + fid.split("-", 1)[1], {"src": "C03", "case": c}))
    for fid, c in c11.probes():
        out.append(("C12-" + fid.split("-", 1)[1], {"src": "C11", "case": c}))
    # Impala-style truncated final bit-packed group; single-value delta page
    imp = {"plan": {"schema": [{"name": "c0", "repetition": "OPTIONAL", "physical": "INT32"}],
                    "row_groups": [{"data": {"c0": [1, None, 3]},
                                    "chunks": {"c0": {"pages": [{"encoding": "PLAIN", "truncate_last_group": True, "def_runs": [["bp", 1]]}]}}}]},
           "cols": [{"key": "i32", "kind": "i32", "name": "c0"}], "allow_known": True}
    one = {"plan": {"schema": [{"name": "c0", "repetition": "REQUIRED", "physical": "INT64"}],
                    "row_groups": [{"data": {"c0": [7]}, "chunks": {"c0": {"pages": [{"encoding": "DELTA_BINARY_PACKED"}]}}}]},
           "cols": [{"key": "i64", "kind": "i64", "name": "c0"}], "allow_known": True}
    out.append(("C12-bitpacked-truncated-group", {"src": "C03", "case": imp}))
    out.append(("C12-delta-single-value", {"src": "C03", "case": one}))
    return out


def shrink_moves(case):
    mod = _src(case["src"])
    f = getattr(mod, "shrink_moves", None)
    if f is None:
        return
    for c in f(case["case"]):
        yield {"src": case["src"], "case": c}


def abbreviate(case):
    mod = _src(case["src"])
    f = getattr(mod, "abbreviate", None)
    return {"src": case["src"], "case": f(case["case"]) if f else case["case"]}
