"""C16 - user key-value metadata is kept verbatim; in-place updates touch nothing else."""
import copy
import json
import os

from hypothesis import strategies as st

from vf import cases, common, shrinkers
from vf.gen import frames
from vf.model import frames_eq
from vf.runner import discard, exc_detail, exc_sig, ok, viol

ID = "C16"
LEVEL = "exploration"
RULE = ("Hypothesis draws a small dataset (single file, or hive with _metadata as the update target), an initial custom_metadata "
        "dict (str/bytes keys and values, unicode, empty, up to 64 KiB) and a history of 1-5 update_file_custom_metadata dicts that "
        "add, replace or remove keys; replacement lengths are drawn as the current length plus a delta from {-16..16} and larger "
        "steps, so footers grow, stay equal or shrink by 1..7, 8 and more bytes. After every step: ParquetFile.key_value_metadata "
        "equals the model dict (the library's own 'pandas' entry untouched); refpq (independent strict reader) accepts the file - "
        "exact footer length, trailing magic, nothing after it - and sees the same schema, row groups, num_rows and created_by as "
        "before; the bytes before the footer are unchanged; to_pandas() equals the original. Non-trivial: a step changed the "
        "footer size by 1..7 bytes or shrank/grew it by >= 8 bytes (histogram in labels). The dict the API returns is compared with "
        "types: a key and a value are each text when their bytes are valid UTF-8 and bytes otherwise, independently. One update in "
        "eight carries a value that is neither text nor bytes: it must be refused and leave the file byte-identical.")
ASSUMPTIONS = [
    "a bytes key/value that is valid UTF-8 comes back as str (documented decoding, pinned by the repository's own test)",
    "the keys 'pandas' and 'PANDAS_ATTRS' belong to the library and are not used as user keys",
]
MANIFEST = {
    "category": "exploration",
    "technique": "model-based property testing of generated metadata-update histories with footer-size-targeted generation; independent strict reader for file validity",
    "text": "Generated histories of in-place key-value updates with replacement sizes aimed at every footer size change (shrink by "
            "1..7, by >= 8, equal, growth); after each step the key-value dict equals a dict model, an independent strict reader "
            "accepts the file and sees unchanged schema/row groups, and all bytes before the footer are identical.",
    "note": "Trusted: refpq for footer framing/strict decode; dict model of the documented merge rules.",
}
BUDGET = {"quick": {"shards": 8, "examples": 500, "wall": 110},
          "thorough": {"shards": 16, "examples": 4000, "wall": 1500}}

_keys = st.one_of(st.sampled_from(["a", "k", "key", "ä", "note", "x" * 20, "", "k2"]), st.text(max_size=6))


def _val(draw, length=None):
    if length is None:
        length = draw(st.one_of(st.integers(0, 40), st.sampled_from([0, 1, 7, 8, 9, 120, 127, 128, 129, 1000, 16383, 16384, 65536])))
    kind = draw(st.sampled_from(["ascii", "ascii", "bytes", "unicode"]))
    if kind == "ascii":
        return {"s": (draw(st.text(alphabet="abcdefgh", min_size=1, max_size=4)) * (length + 1))[:length]}
    if kind == "bytes":
        unit = draw(st.binary(min_size=1, max_size=3))
        return {"hex": (unit * (length + 1))[:length].hex()}
    s = ("é" * (length // 2 + 1))[: length // 2] + ("x" if length % 2 else "")
    return {"s": s}


def _vlen(v):
    if v is None:
        return 0
    return len(bytes.fromhex(v["hex"])) if "hex" in v else len(v["s"].encode("utf8"))


@st.composite
def strategy_(draw, thorough):
    fr = draw(frames.frame(kinds=["int", "float", "text", "bool", "category"], max_cols=3, index=False,
                           rows=[0, 1, 2, 5, 17]))
    target = draw(st.sampled_from(["data", "data", "_metadata"]))
    opts = {"compression": draw(st.sampled_from([None, "SNAPPY", "GZIP"])), "rgo": draw(frames.row_group_offsets(fr["n"])),
            "file_scheme": "simple" if target == "data" else "hive", "dpv": draw(st.sampled_from([1, 2]))}
    kv = {}
    for _ in range(draw(st.integers(0, 4))):
        k = draw(_keys)
        if k in ("pandas", "PANDAS_ATTRS"):
            continue
        kv[k] = _val(draw)
    if draw(st.integers(0, 5)) == 0:
        # many keys: the key/value list of the footer crosses the short/long list-header boundary (15 entries with 'pandas')
        for i in range(draw(st.sampled_from([11, 12, 13, 13, 14, 14, 15, 16]))):
            kv["m%02d" % i] = {"s": "v%d" % i}
    model = dict(kv)
    updates = []
    for _ in range(draw(st.integers(1, 5))):
        upd = {}
        for _ in range(draw(st.integers(1, 3))):
            how = draw(st.sampled_from(["resize", "resize", "resize", "add", "remove", "replace"]))
            if how in ("resize", "remove", "replace") and model:
                k = draw(st.sampled_from(sorted(model)))
                if how == "remove":
                    upd[k] = None
                elif how == "replace":
                    upd[k] = _val(draw)
                else:
                    delta = draw(st.one_of(st.integers(-16, 16), st.sampled_from([-1, -3, -7, -8, -9, 1, 7, 8, -100, 100, -2000, 2000])))
                    upd[k] = _val(draw, max(0, _vlen(model[k]) + delta))
            else:
                k = draw(_keys)
                if k in ("pandas", "PANDAS_ATTRS"):
                    continue
                upd[k] = _val(draw) if draw(st.integers(0, 6)) else None
        if upd and draw(st.integers(0, 7)) == 0:
            # one value that is neither text nor bytes: the whole update must be refused and nothing may change
            k = draw(st.sampled_from(sorted(upd)))
            upd[k] = {"bad": draw(st.sampled_from([7, 1.5, True, [1], {"a": 1}]))}
            updates.append(upd)
            continue
        for k, v in upd.items():
            if v is None:
                model.pop(k, None)
            else:
                model[k] = v
        if upd:
            updates.append(upd)
    if not updates:
        updates = [{"a": {"s": "b"}}]
    case = {"frame": fr, "opts": opts, "kv": kv, "target": target, "updates": updates,
            "key_as_bytes": draw(st.sampled_from([True, False, False, "mixed"])),
            # a data file whose name merely contains "_metadata" is still a data file
            "fname": draw(st.sampled_from(["t.parq", "t.parq", "sensor_metadata.parquet", "my_metadata_v2.parq"]))}
    if draw(st.integers(0, 3)) == 0:
        # DataFrame.attrs travel in the key/value metadata too (key PANDAS_ATTRS), next to the caller's keys
        case["attrs"] = draw(st.sampled_from([{"a": 1}, {"unit": "m", "n": [1, 2]}, {"é": "ü"}]))
    if draw(st.integers(0, 7)) == 0:
        # a last update that removes every key there is, the library's own ones included
        case["remove_all"] = True
    return case


def strategy(tier):
    return strategy_(tier == "thorough")


def _py(v):
    if v is None:
        return None
    if "bad" in v:
        return v["bad"]
    return bytes.fromhex(v["hex"]) if "hex" in v else v["s"]


def _dec(b):
    try:
        return b.decode("utf8")
    except UnicodeDecodeError:
        return b


def _b(x):
    return x.encode("utf8") if isinstance(x, str) else bytes(x)


def _snapshot(data):
    from vf.refpq import reader
    p = reader.read(data)
    return p


def run_case(case):
    import fastparquet
    from vf.refpq import reader
    from vf.props.c02 import IGNORED_KINDS
    fr, opts = case["frame"], case["opts"]
    labels = ["target:" + case["target"]]
    with common.Scratch() as d:
        path = os.path.join(d, case.get("fname", "t.parq") if opts["file_scheme"] == "simple" else "ds")
        df = cases.build_frame(fr)
        if case.get("attrs"):
            df.attrs = json.loads(json.dumps(case["attrs"]))
        kab = case.get("key_as_bytes")
        cm = {(k.encode("utf8") if (kab is True or (kab == "mixed" and i % 2)) else k): _py(v) for i, (k, v) in enumerate(case["kv"].items())}
        try:
            with cases.writer_globals(opts):
                fastparquet.write(path, df, compression=opts["compression"], row_group_offsets=opts["rgo"],
                                  file_scheme=opts["file_scheme"], custom_metadata=cm or None)
            orig = fastparquet.ParquetFile(path).to_pandas()
        except Exception as e:
            # plain columns and str/bytes keys and values: nothing here may be refused
            return viol("write_or_first_read_raised|" + exc_sig(e), exc_detail(e), labels=labels)
        target = path if case["target"] == "data" else os.path.join(path, "_metadata")
        with open(target, "rb") as f:
            data0 = f.read()
        p0 = reader.read(data0)
        bad = [i for i in p0.issues if i.kind not in IGNORED_KINDS]
        if bad:
            return discard("initial file not clean (C02): " + bad[0].kind, labels)
        model = {_b(k): _b(_py(v)) for k, v in case["kv"].items()}
        if case.get("attrs"):
            model[b"PANDAS_ATTRS"] = json.dumps(case["attrs"]).encode("utf8")
        pandas_val = dict((k, v) for k, v in p0.kv).get(b"pandas")
        # written verbatim?
        r = _check_kv(path, target, model, pandas_val, p0, data0, orig, case, reader, IGNORED_KINDS)
        if r:
            return viol("initial|" + r[0], r[1], labels=labels)
        nt = False
        prev_len = p0.footer_len
        steps = list(case["updates"])
        if case.get("remove_all"):
            steps.append("remove_all")
        for si, upd in enumerate(steps):
            if upd == "remove_all":
                upd = {(k.decode("utf8") if not case.get("key_as_bytes") else k.decode("utf8")): None for k in model}
                upd["pandas"] = None
                pandas_val = None
                case = dict(case, _pandas_removed=True)
                labels.append("all_keys_removed")
            arg = {k: _py(v) for k, v in upd.items()}
            refused = any(isinstance(v, dict) and "bad" in v for v in upd.values())
            if refused:
                with open(target, "rb") as f:
                    before = f.read()
            try:
                fastparquet.update_file_custom_metadata(target, arg)
            except Exception as e:
                if refused and isinstance(e, (TypeError, ValueError)):
                    labels.append("refused_update")
                    with open(target, "rb") as f:
                        after = f.read()
                    if after != before:
                        return viol("refused_update_changed_file|" + case["target"],
                                    "step %d: update with a %s value raised %s and left the file changed (%d -> %d bytes)"
                                    % (si, type(next(_py(v) for v in upd.values() if isinstance(v, dict) and "bad" in v)).__name__,
                                       type(e).__name__, len(before), len(after)), labels=labels)
                    r = _check_kv(path, target, model, pandas_val, p0, data0, orig, case, reader, IGNORED_KINDS)
                    if r:
                        return viol("%s|after_refused|%s" % (r[0], case["target"]), "step %d: %s" % (si, r[1]), labels=labels)
                    continue
                return viol("update_raised|" + exc_sig(e), "step %d: %s" % (si, exc_detail(e)), labels=labels)
            if refused:
                return viol("bad_value_accepted|" + case["target"], "step %d: a value that is neither text nor bytes was accepted" % si, labels=labels)
            for k, v in upd.items():
                if v is None:
                    model.pop(_b(k), None)
                else:
                    model[_b(k)] = _b(_py(v))
            with open(target, "rb") as f:
                data = f.read()
            flen = int.from_bytes(data[-8:-4], "little") if len(data) >= 12 else -1
            delta = flen - prev_len
            cls = ("same" if delta == 0 else "shrink1-7" if -7 <= delta < 0 else "shrink>=8" if delta <= -8
                   else "grow1-7" if delta <= 7 else "grow>=8")
            labels.append("delta:" + cls)
            r = _check_kv(path, target, model, pandas_val, p0, data0, orig, case, reader, IGNORED_KINDS)
            if r:
                return viol("%s|%s|%s" % (r[0], cls, case["target"]), "step %d (footer %d -> %d bytes): %s" % (si, prev_len, flen, r[1]), labels=labels)
            if cls not in ("same",):
                nt = True
            prev_len = flen
    return ok(nt, sorted(set(labels)))


def _check_kv(path, target, model, pandas_val, p0, data0, orig, case, reader, ignored):
    import fastparquet
    with open(target, "rb") as f:
        data = f.read()
    try:
        p = reader.read(data)
    except Exception as e:
        return ("oracle_raised", exc_detail(e))
    bad = [i for i in p.issues if i.kind not in ignored]
    if bad:
        return ("invalid_file|" + bad[0].kind, "%s at %s: %s" % (bad[0].kind, bad[0].where, bad[0].detail))
    got = [(k, v) for k, v in p.kv if k not in (b"pandas",)]
    if len({k for k, _ in got}) != len(got):
        return ("duplicate_keys", "keys %r" % [k for k, _ in got])
    if dict(got) != model:
        return ("kv_bytes", "stored key-values %r != model %r" % (_short(dict(got)), _short(model)))
    if dict(p.kv).get(b"pandas") != pandas_val:
        return ("pandas_key_changed", "the library's pandas entry changed")
    for key in ("schema", "row_groups", "num_rows", "created_by", "version"):
        if p.meta.get(key) != p0.meta.get(key):
            return ("footer_field_changed|" + key, "FileMetaData.%s changed" % key)
    if case["target"] == "data":
        if data[: p0.footer_start] != data0[: p0.footer_start]:
            return ("data_bytes_changed", "bytes before the footer changed")
        if p.footer_start != p0.footer_start:
            return ("footer_moved", "footer start %d -> %d" % (p0.footer_start, p.footer_start))
    try:
        pf = fastparquet.ParquetFile(path)
        kvm = pf.key_value_metadata
        now = pf.to_pandas()
    except Exception as e:
        return ("unreadable|" + exc_sig(e), exc_detail(e))
    api = {}
    for k, v in kvm.items():
        if k in ("pandas",):
            continue
        api[_b(k)] = _b(v) if v is not None else None
    if api != model:
        return ("kv_api", "key_value_metadata %r != model %r" % (_short(api), _short(model)))
    # as returned to the user: a key and a value are each text when their bytes are valid UTF-8 and bytes otherwise,
    # independently of one another (the repository's test_custom_metadata_key_value_decode)
    want = {_dec(k): _dec(v) for k, v in model.items()}
    shown = {k: v for k, v in kvm.items() if k != "pandas"}
    if shown != want:
        bad = sorted(repr(k) for k in set(shown) ^ set(want)) or sorted(repr(k) for k in want if shown[k] != want[k] or type(shown[k]) is not type(want[k]))
        return ("kv_api_types", "key_value_metadata returns %r, expected %r (entries %s)" % (_short(shown), _short(want), bad[:3]))
    if case.get("_pandas_removed"):
        # without the library's own entry dtypes fall back to what the schema says (categoricals become plain columns)
        r = frames_eq.frames_equal(now, orig, check_dtype=False, check_categories=False, loose_numbers=True)
    else:
        r = frames_eq.frames_equal(now, orig)
    if r:
        return ("content_changed|" + r[0], r[1])
    return None


def _short(d):
    return {k[:12]: ((v[:12] + (b"..." if isinstance(v, bytes) else "...")) if v is not None and len(v) > 12 else v)
            for k, v in list(d.items())[:6]}


def shrink_moves(case):
    for u in shrinkers.list_moves(case["updates"], 1):
        c = copy.deepcopy(case)
        c["updates"] = u
        yield c
    for i, upd in enumerate(case["updates"]):
        if len(upd) > 1:
            for k in upd:
                c = copy.deepcopy(case)
                del c["updates"][i][k]
                yield c
    for k in list(case["kv"]):
        c = copy.deepcopy(case)
        del c["kv"][k]
        yield c
    for f in shrinkers.frame_moves(case["frame"]):
        c = copy.deepcopy(case)
        c["frame"] = f
        yield c
    for k, v in (("compression", None), ("rgo", None), ("dpv", 1)):
        if case["opts"].get(k) != v:
            c = copy.deepcopy(case)
            c["opts"][k] = v
            yield c


def abbreviate(case):
    def sv(v):
        return None if v is None else ("%d bytes" % _vlen(v))
    return {"frame": shrinkers.abbreviate_frame(case["frame"]), "target": case["target"],
            "kv": {k: sv(v) for k, v in case["kv"].items()},
            "updates": [{k: sv(v) for k, v in u.items()} for u in case["updates"]]}
