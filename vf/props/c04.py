"""C04 - column statistics are exact: min/max/null_count describe the stored chunk."""
import json
import os

import numpy as np
import pandas as pd
from hypothesis import strategies as st

from vf import cases, common, shrinkers
from vf.cases import MISSING
from vf.gen import frames
from vf.props import c01, c02
from vf.runner import discard, exc_detail, exc_sig, ok, viol

ID = "C04"
LEVEL = "exploration"
RULE = ("Hypothesis draws C01 frames (all dtypes incl. unsigned above the signed range, NaN/inf/-0.0, all-null and single-value "
        "chunks, unicode text, categoricals with arbitrary category order, tz-aware times, nullable ints) x row-group splits x "
        "stats in {True, 'auto', list} x v1/v2 x times. Row-group boundaries are taken from refpq (independent reader). For every "
        "(row group, column) the model computes min/max over the non-missing cells of that slice under the Parquet order of the "
        "column's type and the number of missing cells. Three surfaces are compared with it: the raw Statistics bytes decoded by "
        "refpq, ParquetFile.statistics, and sorted_partitioned_columns (a listed column must really have max[i] < min[i+1] in the "
        "data and report the model's bounds). Absent min/max is always acceptable; present must be exact; chunks without a "
        "non-missing value, and dict/list objects, must carry none. Non-trivial: some chunk with >= 2 distinct non-missing values "
        "carries statistics.")
ASSUMPTIONS = [
    "missing cells (None/NaN/NaT/NA) are not values: they never count for min/max; null_count may be the number of missing cells "
    "or, in a REQUIRED column (where NaN/NaT are stored sentinels), 0",
    "either sign of zero is accepted for a float bound equal to 0",
    "refpq decodes the Statistics bytes (PLAIN single value, unsigned reinterpretation per annotation)",
]
MANIFEST = {
    "category": "exploration",
    "technique": "property-based testing against a per-chunk statistics model (min/max/null count recomputed from the generated case, boundaries from an independent reader)",
    "text": "Generated frames x splits x stats settings; every chunk's statistics - as raw bytes decoded by the independent reader, as "
            "exposed by ParquetFile.statistics and as used by sorted_partitioned_columns - must equal the model's min/max/null "
            "count of exactly the rows that chunk holds.",
    "note": "Trusted: refpq for row-group boundaries and decoding of the raw Statistics; Python comparison for the orderings "
            "(code-point order of str equals the unsigned byte order of UTF-8).",
}
BUDGET = {"quick": {"shards": 8, "examples": 350, "wall": 110},
          "thorough": {"shards": 16, "examples": 8000, "wall": 1500}}


@st.composite
def strategy_(draw, thorough):
    case = draw(frames.frame_and_options(thorough=thorough, schemes=("simple", "simple", "hive"), min_rows=1))
    fr, opts = case["frame"], case["opts"]
    n = fr["n"]
    if n >= 2 and draw(st.integers(0, 3)) > 0:
        opts["rgo"] = draw(st.integers(1, max(1, n // 2)))
    sk = draw(st.integers(0, 5))
    names = [c["name"] for c in fr["cols"]]
    opts["stats"] = True if sk <= 2 else "auto" if sk <= 4 else [c for c in names if draw(st.booleans())]
    return case


def strategy(tier):
    return strategy_(tier == "thorough")


def order_key(col, v):
    """Comparable key of a non-missing raw value under the Parquet order of the column type."""
    k = col["kind"]
    if k == "float":
        f = float(np.float32(v)) if col["sub"] == "float32" else float(v)
        return f
    if k == "bytes":
        return bytes.fromhex(v)
    if k == "category":
        return (float(v) if col["labels"] == "float" else bool(v) if col["labels"] == "bool" else v)
    if k == "nullable" and col["sub"] == "boolean":
        return bool(v)
    if k == "pyobj":
        return {"int": int, "bool": bool, "float": float}[col["sub"]](v)
    return v


def model_stats(col, vals):
    """(min, max, n_missing, n_distinct_nonmissing) over raw values of one chunk; min/max None when undefined."""
    present = [v for v in vals if v is not MISSING]
    miss = len(vals) - len(present)
    if col["kind"] == "json" or not present:
        return None, None, miss, len({json.dumps(v, sort_keys=True) for v in present})
    keys = [order_key(col, v) for v in present]
    if col["kind"] == "float":
        keys = [x for x in keys if x == x]
        if not keys:
            return None, None, miss, 0
    return min(keys), max(keys), miss, len(set(keys))


def stat_to_key(col, x, opts):
    """Map a decoded statistic (refpq logical domain) to the model's key domain."""
    k = col["kind"]
    if isinstance(x, tuple) and x and x[0] == "undecodable":
        return ("!undecodable", x[1])
    if k == "datetime":
        if opts.get("times") == "int96":
            ns = int(x)
            return ns // cases.UNIT_NS[col["unit"]] if ns % cases.UNIT_NS[col["unit"]] == 0 else ("!ticks", ns)
        f = 1000 if col["unit"] == "s" else 1
        return int(x) // f if int(x) % f == 0 else ("!ticks", x)
    if k == "timedelta":
        ns = int(x) * 1000
        u = cases.UNIT_NS[col["unit"]]
        return ns // u if ns % u == 0 else ("!ticks", x)
    if k == "text" or (k == "category" and col["labels"] == "text"):
        return x if isinstance(x, str) else ("!type", repr(x))
    if k == "bytes":
        return bytes(x) if isinstance(x, (bytes, bytearray)) else ("!type", repr(x))
    if k == "float" or (k == "category" and col["labels"] == "float") or (k == "pyobj" and col["sub"] == "float"):
        return float(x)
    if k == "bool" or (k == "nullable" and col["sub"] == "boolean") or (k == "category" and col["labels"] == "bool") or (k == "pyobj" and col["sub"] == "bool"):
        return bool(x) if isinstance(x, bool) else ("!type", repr(x))
    return int(x) if isinstance(x, int) and not isinstance(x, bool) else ("!type", repr(x))


def api_stat_to_key(col, x, opts):
    """Map a value from ParquetFile.statistics to the model's key domain."""
    k = col["kind"]
    try:
        if x is None:
            return None
        if k == "datetime":
            t = pd.Timestamp(x)
            if t.tz is not None:
                t = t.tz_convert("UTC").tz_localize(None)
            ns = int(t.as_unit("ns").value)
            u = cases.UNIT_NS[col["unit"]]
            return ns // u if ns % u == 0 else ("!ticks", ns)
        if k == "timedelta":
            ns = int(pd.Timedelta(x).as_unit("ns").value)
            u = cases.UNIT_NS[col["unit"]]
            return ns // u if ns % u == 0 else ("!ticks", ns)
        if k == "text" or (k == "category" and col["labels"] == "text"):
            if isinstance(x, (bytes, np.bytes_)):
                return bytes(x).decode("utf8")
            return str(x) if isinstance(x, str) else ("!type", repr(x))
        if k == "bytes":
            return bytes(x) if isinstance(x, (bytes, np.bytes_)) else ("!type", repr(x))
        if k == "float" or (k == "category" and col["labels"] == "float") or (k == "pyobj" and col["sub"] == "float"):
            return float(x)
        if k == "bool" or (k == "nullable" and col["sub"] == "boolean") or (k == "category" and col["labels"] == "bool") or (k == "pyobj" and col["sub"] == "bool"):
            return bool(x)
        if k == "json":
            return ("!json_stat", repr(x))
        return int(x)
    except Exception as e:
        return ("!exc", repr(e), repr(x))


def same_bound(a, b):
    if isinstance(a, float) and isinstance(b, float):
        return a == b        # -0.0 == 0.0: either sign of zero accepted
    return type(a) is type(b) and a == b


def run_case(case):
    import fastparquet
    from fastparquet import api
    from vf.refpq import reader
    fr, opts = case["frame"], case["opts"]
    labels = c01.features(case) + ["stats:%s" % (opts["stats"] if not isinstance(opts["stats"], list) else "list")]
    if cases.required_with_missing(fr, opts):
        return discard("missing category cell in a required column (invalid request, C18)", labels)
    scheme = opts.get("file_scheme", "simple")
    with common.Scratch() as d:
        df, path, err = c01.write_case(case, d)
        if err is not None:
            return ok(False, labels + ["write_raised"])
        if scheme == "simple":
            with open(path, "rb") as f:
                pdata = reader.read(f.read())
        else:
            def loader(rel):
                with open(os.path.join(path, rel), "rb") as f:
                    return f.read()
            with open(os.path.join(path, "_metadata"), "rb") as f:
                pdata = reader.read(f.read(), part_loader=loader)
        want = c02.columns_written(fr, opts)
        if [l.name for l in pdata.leaves] != [w[0] for w in want]:
            return discard("schema names differ (C02)", labels)
        n = fr["n"]
        bounds = [0]
        for rg in pdata.row_groups:
            bounds.append(bounds[-1] + rg.num_rows)
        if bounds[-1] != n:
            return discard("row groups do not add up (C02)", labels)
        raws = {name: cases.raw_values(col, n) for name, col in want}
        try:
            pf = fastparquet.ParquetFile(path)
            api_stats = pf.statistics
        except Exception as e:
            return viol("statistics_raised|" + exc_sig(e), exc_detail(e), labels=labels)
        nt = False
        model = {}
        for gi, rg in enumerate(pdata.row_groups):
            for (name, col), leaf in zip(want, pdata.leaves):
                tag = c01.col_tag(col)
                chunk = rg.chunks.get(leaf.path)
                if chunk is None:
                    return discard("chunk missing (C02)", labels)
                vals = raws[name][bounds[gi]:bounds[gi + 1]]
                mn, mx, miss, distinct = model_stats(col, vals)
                model[(gi, name)] = (mn, mx, miss)
                st_ = reader.read_statistics(chunk, leaf)
                optional = leaf.max_def == 1
                # ---- raw statistics
                for lo, hi in (("min", "max"), ("min_value", "max_value")):
                    if (lo in st_) != (hi in st_):
                        return viol("raw|half_present|" + tag, "row group %d column %r: only one of %s/%s present" % (gi, name, lo, hi), labels=labels)
                    if lo not in st_:
                        continue
                    if mn is None:
                        why = "unordered" if col["kind"] == "json" else "all_missing"
                        return viol("raw|minmax_without_values|%s|%s" % (why, tag), "row group %d column %r has %s=%r/%s=%r but %s"
                                    % (gi, name, lo, st_[lo], hi, st_[hi], "its values have no defined order" if why == "unordered"
                                       else "no non-missing value"), labels=labels)
                    gmn, gmx = stat_to_key(col, st_[lo], opts), stat_to_key(col, st_[hi], opts)
                    if not same_bound(gmn, mn) or not same_bound(gmx, mx):
                        which = "min" if not same_bound(gmn, mn) else "max"
                        return viol("raw|%s|%s" % (which, tag), "row group %d column %r: stored %s=%r %s=%r, data has min=%r max=%r"
                                    % (gi, name, lo, gmn, hi, gmx, mn, mx), labels=labels)
                    if distinct >= 2:
                        nt = True
                if "null_count" in st_:
                    ok_counts = {miss} if optional else {0, miss}
                    if st_["null_count"] not in ok_counts:
                        return viol("raw|null_count|" + tag, "row group %d column %r: null_count=%r, missing cells=%d (optional=%r)"
                                    % (gi, name, st_["null_count"], miss, optional), labels=labels)
                # ---- ParquetFile.statistics
                for which, exp in (("min", mn), ("max", mx)):
                    lst = api_stats.get(which, {}).get(name)
                    if lst is None or len(lst) != len(pdata.row_groups):
                        continue     # [None] placeholder: nothing claimed
                    g = api_stat_to_key(col, lst[gi], opts)
                    if g is None:
                        continue
                    if exp is None:
                        if "min" in st_ or "min_value" in st_:
                            continue     # already reported on the raw surface
                        return viol("api|%s_without_values|%s" % (which, tag), "statistics[%r][%r][%d]=%r but the chunk has no ordered value"
                                    % (which, name, gi, lst[gi]), labels=labels)
                    if not same_bound(g, exp):
                        return viol("api|%s|%s" % (which, tag), "statistics[%r][%r][%d]=%r -> %r, data has %r" % (which, name, gi, lst[gi], g, exp),
                                    labels=labels)
                nc = api_stats.get("null_count", {}).get(name)
                if nc is not None and len(nc) == len(pdata.row_groups) and nc[gi] is not None:
                    if nc[gi] not in ({miss} if optional else {0, miss}):
                        return viol("api|null_count|" + tag, "statistics['null_count'][%r][%d]=%r, missing cells=%d" % (name, gi, nc[gi], miss), labels=labels)
        # ---- nothing hidden: bounds stored in every row group of a column are exposed (the API collapses a column to
        #      "nothing claimed" only when some row group has no bound or the stored bytes cannot be converted)
        ngr = len(pdata.row_groups)
        for (name, col), leaf in zip(want, pdata.leaves):
            if col["kind"] == "json" or ngr == 0:
                continue
            for which in ("min", "max"):
                raw_all = all(which in reader.read_statistics(rg.chunks[leaf.path], leaf) for rg in pdata.row_groups if leaf.path in rg.chunks)
                if not raw_all or any(leaf.path not in rg.chunks for rg in pdata.row_groups):
                    continue
                lst = api_stats.get(which, {}).get(name)
                if lst is None or len(lst) != ngr or any(x is None for x in lst):
                    return viol("api|%s_hidden|%s" % (which, c01.col_tag(col)),
                                "every row group stores a %s for column %r, statistics[%r][%r] = %r" % (which, name, which, name, lst),
                                labels=labels)
        # ---- sorted_partitioned_columns
        try:
            spc = api.sorted_partitioned_columns(pf)
        except Exception as e:
            return viol("sorted_partitioned_columns_raised|" + exc_sig(e), exc_detail(e), labels=labels)
        cols = dict(want)
        for name, mm in spc.items():
            col = cols.get(name)
            if col is None:
                continue
            tag = c01.col_tag(col)
            ng = len(pdata.row_groups)
            ms = [model[(gi, name)] for gi in range(ng)]
            if any(m[0] is None for m in ms):
                return viol("sorted|listed_without_values|" + tag, "column %r listed as sorted but a row group has no ordered value" % name, labels=labels)
            for gi in range(ng - 1):
                if not ms[gi][1] < ms[gi + 1][0]:
                    return viol("sorted|not_sorted|" + tag, "column %r listed as sorted across row groups, but max of group %d (%r) is not below "
                                "min of group %d (%r)" % (name, gi, ms[gi][1], gi + 1, ms[gi + 1][0]), labels=labels)
            for which, j in (("min", 0), ("max", 1)):
                got = [api_stat_to_key(col, x, opts) for x in mm[which]]
                exp = [m[j] for m in ms]
                if len(got) != len(exp) or any(not same_bound(g, e) for g, e in zip(got, exp)):
                    return viol("sorted|bounds|" + tag, "column %r: reported %s %r, data has %r" % (name, which, got, exp), labels=labels)
            labels.append("sorted_listed")
        # ---- the derived list under a filter, and the handle's statistics afterwards
        ng = len(pdata.row_groups)
        if ng >= 2:
            labels.append("multi_rg")
            intcols = [(name, col) for name, col in want if col["kind"] in ("int", "float") and all(model[(gi, name)][0] is not None for gi in range(ng))]
            if intcols:
                name, col = intcols[0]
                cut = model[(ng - 1, name)][0]           # smallest value of the last row group
                flt = [(name, ">=", cut)]
                try:
                    keep = api.filter_row_groups(pf, flt, as_idx=True)
                    spc_f = api.sorted_partitioned_columns(pf, filters=flt)
                except Exception as e:
                    keep, spc_f = None, None
                if keep is not None:
                    for cname, mm in spc_f.items():
                        c2 = cols.get(cname)
                        if c2 is None:
                            continue
                        for which, j in (("min", 0), ("max", 1)):
                            got = [api_stat_to_key(c2, x, opts) for x in mm[which]]
                            exp = [model[(gi, cname)][j] for gi in keep]
                            if len(got) != len(exp) or any(e is None or not same_bound(g, e) for g, e in zip(got, exp)):
                                return viol("sorted_filtered|bounds|" + c01.col_tag(c2), "column %r under %r: reported %s %r, data of the kept row groups %r has %r"
                                            % (cname, flt, which, got, keep, exp), labels=labels)
                    labels.append("sorted_filtered")
                    # the handle must still describe every row group
                    again = pf.statistics
                    fresh = fastparquet.ParquetFile(path).statistics
                    if repr(again) != repr(fresh):
                        return viol("statistics_changed_by_query", "ParquetFile.statistics differs from a fresh handle's after sorted_partitioned_columns(filters=%r)" % (flt,),
                                    labels=labels)
    return ok(nt, labels)


def shrink_moves(case):
    return shrinkers.frame_opts_moves(case)


def abbreviate(case):
    return shrinkers.abbreviate_frame_case(case)
