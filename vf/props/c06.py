"""C06 - every partial read agrees with the corresponding part of the full read."""
import copy
import pickle

import pandas as pd
from hypothesis import strategies as st

from vf import cases, common, shrinkers
from vf.gen import datasets
from vf.model import frames_eq
from vf.props import c01
from vf.runner import discard, exc_detail, exc_sig, ok, viol

ID = "C06"
LEVEL = "exploration"
RULE = ("Hypothesis draws a dataset (C01/C08 generators: any dtype, row-group split, scheme, optional partitions, optional "
        "written index) and an access program: handle transformations (pickle round trip, copy, deepcopy, pf[i:j:k], pf[i], "
        "open from file object) followed by a read (to_pandas with columns/index/categories, iter_row_groups, head(n), "
        "count/info/len). Oracle (metamorphic): the result equals the same selection applied to one full read of a fresh "
        "handle; reported row counts equal rows read. Non-trivial: >= 2 row groups and the program selects a proper, "
        "non-empty part (rows or columns) or transforms the handle.")
ASSUMPTIONS = [
    "agreement only: absolute correctness of the full read is C01's business",
    "column order of a projected read is not compared (values are compared per column name)",
    "labels of a generated RangeIndex are positional and not compared",
]
MANIFEST = {
    "category": "exploration",
    "technique": "metamorphic property-based testing: generated access programs vs the corresponding slice/projection of the full read",
    "text": "Generated datasets x generated access programs (compositions of pickle/copy/slice/pick/file-object handles with "
            "column subsets, index choices, iteration, head(n), counts); every partial result must equal the corresponding "
            "positional part of the full read, and every reported count the number of rows read.",
    "note": "Trusted: pandas positional selection (iloc, reset_index, set_index) used to derive the expected part from the full read.",
}
BUDGET = {"quick": {"shards": 8, "examples": 400, "wall": 100},
          "thorough": {"shards": 16, "examples": 5000, "wall": 1500}}

INDEXABLE = ("int", "float", "text", "datetime")


@st.composite
def program(draw, case):
    fr = case["frame"]
    pnames = list(case.get("partition_on") or [])
    names = [c["name"] for c in fr["cols"]]
    hops = []
    for _ in range(draw(st.integers(0, 3))):
        k = draw(st.sampled_from(["pickle", "copy", "deepcopy", "slice", "slice", "pick"]))
        if k == "slice":
            hops.append(["slice", draw(st.one_of(st.none(), st.integers(-4, 5))),
                         draw(st.one_of(st.none(), st.integers(-4, 6))),
                         draw(st.one_of(st.none(), st.sampled_from([1, 2, 3, -1, -2])))])
        elif k == "pick":
            hops.append(["pick", draw(st.integers(0, 7))])
        else:
            hops.append([k])
    if draw(st.integers(0, 5)) == 0:
        # row groups in another order than they lie in the file(s)
        hops.insert(draw(st.integers(0, len(hops))), ["slice", None, None, draw(st.sampled_from([-1, -1, -2]))])
    if case["opts"].get("file_scheme") == "simple" and draw(st.integers(0, 5)) == 0:
        # a handle on an open file object cannot be pickled or deep-copied (the file object cannot)
        hops = [["filelike"]] + [h for h in hops if h[0] not in ("pickle", "deepcopy")]
    cols = None
    if draw(st.booleans()):
        cols = draw(st.lists(st.sampled_from(names), unique=True, min_size=1, max_size=len(names)))
    rk = draw(st.sampled_from(["to_pandas", "to_pandas", "iter", "head", "counts"]))
    read = {"op": rk, "columns": cols}
    if rk in ("to_pandas", "iter"):
        ik = draw(st.integers(0, 5))
        cand = [c["name"] for c in fr["cols"] if c["kind"] in INDEXABLE and c["name"] not in pnames
                and (c.get("null") or {}).get("pat", "none") == "none"]
        if ik == 2 and pnames and case["opts"].get("file_scheme") == "hive":
            # a directory-partition column asked for as the index
            read["index"] = draw(st.sampled_from(pnames))
        else:
            read["index"] = False if ik == 0 else (draw(st.sampled_from(cand)) if ik == 1 and cand else "default")
        ck = draw(st.integers(0, 5))
        catcols = [c["name"] for c in fr["cols"] if c["kind"] == "category" and c["name"] not in pnames]
        if ck == 0 and catcols:
            read["categories"] = draw(st.sampled_from(["list", "dict", "empty"]))
    if rk == "head":
        read["n"] = draw(st.one_of(st.integers(0, 12), st.sampled_from([0, 1, fr["n"], fr["n"] + 5, max(0, fr["n"] - 1)])))
    return {"handle": hops, "read": read}


@st.composite
def strategy_(draw, thorough):
    case = draw(datasets.dataset(thorough=thorough, min_rows=draw(st.sampled_from([0, 2, 2, 4]))))
    n = case["frame"]["n"]
    if n >= 2 and draw(st.integers(0, 4)) > 0:
        # most access programs are only interesting over several row groups
        case["opts"]["rgo"] = draw(st.integers(1, max(1, n // 2)))
    case["prog"] = draw(program(case))
    # the same file as another writer would have left it: no 'pandas' entry in the key/value metadata
    case["strip_pandas"] = draw(st.integers(0, 4)) == 0
    return case


def strategy(tier):
    return strategy_(tier == "thorough")


def _select(df, positions):
    out = df.iloc[positions]
    if isinstance(df.index, pd.RangeIndex):
        out = out.reset_index(drop=True)   # generated labels are positional
    return out


def run_case(case):
    import fastparquet
    fr, opts, prog = case["frame"], case["opts"], case["prog"]
    pnames = list(case.get("partition_on") or [])
    read = prog["read"]
    labels = ["read:" + read["op"]] + ["h:" + h[0] for h in prog["handle"]] + ["scheme:" + opts.get("file_scheme", "simple")]
    if pnames:
        labels.append("partitioned")
    if cases.required_with_missing(fr, opts):
        return discard("missing category cell in a required column (invalid file, C18)")
    with common.Scratch() as d:
        df, path, err = c01.write_case(case, d)
        if err is not None:
            return discard("write_raised")
        if case.get("strip_pandas"):
            import os
            from fastparquet import writer as fwriter
            labels.append("no_pandas_metadata")
            try:
                simple = os.path.isfile(path)
                fwriter.update_file_custom_metadata(path if simple else os.path.join(path, "_metadata"), {"pandas": None},
                                                    is_metadata_file=not simple)
            except Exception as e:
                return discard("strip_raised:" + exc_sig(e))
            # (without the metadata nothing is categorical by default: the `categories` option then changes dtypes by
            #  design, so it is left out of the partial read, which must equal the same selection of the default full read)
            read = {k: v for k, v in read.items() if k != "categories"}
        try:
            pf0 = fastparquet.ParquetFile(path)
            full = pf0.to_pandas()
            nrows = [rg.num_rows for rg in pf0.row_groups]
        except Exception as e:
            return discard("full_read_raised:" + exc_sig(e))
        if sum(nrows) != len(full):
            return viol("counts|sum_num_rows", "sum(rg.num_rows)=%d but full read has %d rows" % (sum(nrows), len(full)), labels=labels)
        nrg = len(nrows)
        starts = [0]
        for r in nrows:
            starts.append(starts[-1] + r)
        sel = list(range(nrg))
        pf = fastparquet.ParquetFile(path)
        fobj = None
        sigops = []
        try:
            for h in prog["handle"]:
                if h[0] == "filelike":
                    fobj = open(path, "rb")
                    pf = fastparquet.ParquetFile(fobj)
                elif h[0] == "pickle":
                    pf = pickle.loads(pickle.dumps(pf))
                elif h[0] == "copy":
                    pf = copy.copy(pf)
                elif h[0] == "deepcopy":
                    pf = copy.deepcopy(pf)
                elif h[0] == "slice":
                    sl = slice(h[1], h[2], h[3])
                    pf = pf[sl]
                    sel = sel[sl]
                elif h[0] == "pick":
                    if not sel:
                        continue
                    i = h[1] % len(sel)
                    pf = pf[i]
                    sel = [sel[i]]
                sigops.append(h[0])
        except Exception as e:
            if fobj:
                fobj.close()
            if h[0] == "filelike" and opts.get("file_scheme") != "simple":
                return discard("filelike on multi-file")
            return viol("handle_raised|%s|%s" % (h[0], exc_sig(e)), exc_detail(e), labels=labels)
        positions = [p for g in sel for p in range(starts[g], starts[g + 1])]
        exp = _select(full, positions)
        opsig = "+".join(sorted(set(sigops))) or "plain"
        avail = [str(c) for c in full.columns] + [n for n in full.index.names if n is not None]
        if read.get("columns") is not None:
            # the case names frame columns; a drill dataset exposes dirN instead, an empty one no partitions
            cols = [c for c in read["columns"] if c in avail and (sel or c not in pf0.cats)]
            read = dict(read, columns=cols or None)
        if read.get("index", "default") not in ("default", False) and (
                read["index"] not in avail or (not sel and read["index"] in pf0.cats)):
            # (a handle that holds no row group knows no partition column: there is no directory to name it)
            read = dict(read, index="default")
        ctx = {"pcols": set(pf0.cats), "empty_selection": not sel,
               "from_index": set(n for n in full.index.names if n is not None) | ({"index"} if not isinstance(full.index, pd.RangeIndex) else set())}
        try:
            r = _do_read(pf, read, exp, full, sel, starts, fr, pnames, labels, ctx)
        except _Viol as v:
            r = viol("%s|%s|%s" % (v.aspect, read["op"], opsig), v.detail, labels=labels)
        except Exception as e:
            from vf.finding_predicates import drill_mixed_labels
            typed_by_path = opts.get("file_scheme") == "drill" or (opts.get("file_scheme") == "hive" and case.get("strip_pandas"))
            if typed_by_path and case["partition_on"] and "is not in list" in str(e) and drill_mixed_labels(case):
                # (value kinds are inferred from the directory names: drill, or hive without the pandas entry)
                r = discard("directory labels mixing text and numbers (recorded finding C08-drill-mixed-text)", labels)
            else:
                r = viol("read_raised|%s|%s|%s" % (read["op"], opsig, exc_sig(e)), exc_detail(e), labels=labels)
        finally:
            if fobj:
                fobj.close()
        if r is not None:
            return r
    proper_rows = 0 < len(positions) < len(full)
    proper_cols = read.get("columns") is not None and len(read["columns"]) < len(fr["cols"])
    nt = nrg >= 2 and len(positions) > 0 and (proper_rows or proper_cols or bool(prog["handle"]) or read["op"] != "to_pandas")
    return ok(nt, labels + (["proper_rows"] if proper_rows else []) + (["proper_cols"] if proper_cols else []))


class _Viol(Exception):
    def __init__(self, aspect, detail):
        self.aspect, self.detail = aspect, detail


def _project(exp, read, fr, pnames):
    """Expected frame for a to_pandas/iter style read of the rows in `exp`."""
    cols = read.get("columns")
    index = read.get("index", "default")
    has_idx = not isinstance(exp.index, pd.RangeIndex)
    e = exp
    if index is False:
        if has_idx:
            e = e.reset_index()
        else:
            e = e.reset_index(drop=True)
        if cols is not None:
            e = e[list(cols)]
        return e
    if index == "default":
        if cols is not None:
            e = e[list(cols)]
        return e
    # promote a column
    if has_idx:
        e = e.reset_index()
    else:
        e = e.reset_index(drop=True)
    keep = list(cols) if cols is not None else [c for c in e.columns if c != index]
    keep = [c for c in keep if c != index]
    e = e.set_index(index)[keep]
    return e


def _cmp(got, exp, what, loose, ctx):
    """Column order is not compared (aligned by name).  Columns derived from the
    index by pandas on the expected side, and partition columns (whose category
    list is naturally restricted to the directories of the selected row groups),
    are compared by per-row value only; with zero rows no labels can be known."""
    if ctx["empty_selection"]:
        exp = exp[[c for c in exp.columns if c not in ctx["pcols"]]]
    gs, es = set(map(str, got.columns)), set(map(str, exp.columns))
    if gs != es:
        raise _Viol("names", "%s: columns %r vs expected %r" % (what, sorted(gs), sorted(es)))
    got = got[list(exp.columns)]
    soft = [c for c in exp.columns if c in ctx["pcols"] or c in ctx["from_index"]]
    hard = [c for c in exp.columns if c not in soft]
    strict = not loose and len(exp) > 0
    r = frames_eq.frames_equal(got[hard], exp[hard], check_dtype=not loose, check_categories=strict)
    if r:
        raise _Viol(r[0], "%s: %s" % (what, r[1]))
    r = frames_eq.frames_equal(got[soft], exp[soft], check_dtype=False, check_categories=False, loose_numbers=True, check_index=False)
    if r:
        raise _Viol(r[0], "%s: %s" % (what, r[1]))


def _kwargs(read, fr, pnames, pf):
    kw = {}
    if read.get("columns") is not None:
        kw["columns"] = list(read["columns"])
    if read.get("index", "default") != "default":
        kw["index"] = read["index"]
    loose = False
    if read.get("categories"):
        catcols = [c for c in fr["cols"] if c["kind"] == "category" and c["name"] not in pnames]
        if read["categories"] == "list":
            kw["categories"] = [c["name"] for c in catcols]
        elif read["categories"] == "dict":
            kw["categories"] = {c["name"]: len(c["cats"]) for c in catcols}
        else:
            kw["categories"] = []
            loose = True
        if kw.get("columns") is not None and read["categories"] != "empty":
            req = set(kw["columns"])
            if isinstance(kw["categories"], list):
                kw["categories"] = [c for c in kw["categories"] if c in req]
            else:
                kw["categories"] = {c: v for c, v in kw["categories"].items() if c in req}
    return kw, loose


def _do_read(pf, read, exp, full, sel, starts, fr, pnames, labels, ctx):
    op = read["op"]
    if op == "counts":
        tot = sum(starts[g + 1] - starts[g] for g in sel)
        if pf.count() != tot:
            raise _Viol("count", "count()=%r but the selected row groups hold %d rows" % (pf.count(), tot))
        if pf.info["rows"] != tot:
            raise _Viol("info_rows", "info['rows']=%r vs %d" % (pf.info["rows"], tot))
        if len(pf) != len(sel) or pf.info["row_groups"] != len(sel):
            raise _Viol("len", "len(pf)=%r info=%r vs %d selected row groups" % (len(pf), pf.info["row_groups"], len(sel)))
        got = pf.to_pandas()
        if len(got) != tot:
            raise _Viol("count_vs_read", "count()=%d but to_pandas() returned %d rows" % (tot, len(got)))
        for k, g in enumerate(sel):
            if pf.row_groups[k].num_rows != starts[g + 1] - starts[g]:
                raise _Viol("rg_num_rows", "row group %d reports %d rows, expected %d" % (k, pf.row_groups[k].num_rows,
                                                                                       starts[g + 1] - starts[g]))
        return None
    kw, loose = _kwargs(read, fr, pnames, pf)
    if op == "to_pandas":
        given = list(kw["columns"]) if "columns" in kw else None
        got = pf.to_pandas(**kw)
        _cmp(got, _project(exp, read, fr, pnames), "to_pandas(%r)" % (kw,), loose, ctx)
        if given is not None:
            # callers reuse their column list: a second partial read with the same list object
            # (index suppressed) must return exactly those columns
            if kw["columns"] != given:
                raise _Viol("columns_argument_mutated", "to_pandas changed the caller's columns list %r -> %r" % (given, kw["columns"]))
            kw2 = dict(kw, index=False)
            got2 = pf.to_pandas(**kw2)
            _cmp(got2, _project(exp, dict(read, index=False), fr, pnames), "second to_pandas(%r) with the same list" % (kw2,), loose, ctx)
        return None
    if op == "iter":
        pieces = list(pf.iter_row_groups(**kw))
        want = [g for g in sel if starts[g + 1] > starts[g]]
        if len(pieces) != len(want):
            raise _Viol("iter_count", "iter_row_groups yielded %d frames for %d non-empty row groups" % (len(pieces), len(want)))
        for piece, g in zip(pieces, want):
            e = _select(full, list(range(starts[g], starts[g + 1])))
            _cmp(piece, _project(e, read, fr, pnames), "iter_row_groups piece of row group %d" % g, loose, ctx)
        return None
    if op == "head":
        n = read["n"]
        kw2 = {k: v for k, v in kw.items() if k == "columns"}
        got = pf.head(n, **kw2)
        _cmp(got, _project(exp.head(n), dict(read, index="default"), fr, pnames), "head(%d)" % n, False, ctx)
        return None
    raise ValueError(op)


def shrink_moves(case):
    prog = case["prog"]
    for hs in shrinkers.list_moves(prog["handle"]):
        c = copy.deepcopy(case)
        c["prog"]["handle"] = hs
        yield c
    rd = prog["read"]
    for k in ("columns", "categories"):
        if rd.get(k) is not None:
            c = copy.deepcopy(case)
            c["prog"]["read"][k] = None
            yield c
    if rd.get("index", "default") != "default":
        c = copy.deepcopy(case)
        c["prog"]["read"]["index"] = "default"
        yield c
    names = None
    for c in shrinkers.frame_opts_moves({k: v for k, v in case.items() if k != "prog"}):
        names = {x["name"] for x in c["frame"]["cols"]}
        pn = [p for p in case.get("partition_on") or [] if p in names]
        if len(pn) != len(case.get("partition_on") or []):
            continue
        if pn and c["opts"].get("file_scheme") == "simple":
            continue
        if pn and not (names - set(pn)):
            continue
        c = dict(c, prog=copy.deepcopy(prog), partition_on=pn)
        r = c["prog"]["read"]
        if r.get("columns") is not None:
            r["columns"] = [x for x in r["columns"] if x in names] or None
        if r.get("index", "default") not in ("default", False) and r["index"] not in names:
            r["index"] = "default"
        yield c


def abbreviate(case):
    return shrinkers.abbreviate_frame_case(case)
