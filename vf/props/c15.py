"""C15 - LIST and MAP columns are assembled into the right per-row lists and dicts."""
import copy
import os
import struct

import numpy as np

from vf import common, shrinkers
from vf.gen import plans
from vf.runner import discard, exc_detail, exc_sig, ok, viol

ID = "C15"
LEVEL = "exploration"
RULE = ("Hypothesis draws nested file plans for refpq.writer + refpq.dremel: optional|required LIST<optional|required primitive> "
        "in the standard 3-level layout and MAP<required primitive, optional|required primitive> (standard and legacy "
        "MAP_KEY_VALUE); element types int32/int64/double/utf8/bool; list lengths 0-6, null rows, empty collections, null "
        "elements; 1-5 pages split at arbitrary *value* positions (inside a row for v1; at row boundaries for v2), PLAIN or "
        "dictionary values, explicit level run plans, all codecs, 1-3 row groups. Each plan is first decoded by refpq.reader "
        "(record assembly written independently of the shredder). Oracle: to_pandas() yields exactly the Python lists / dicts "
        "the plan was shredded from (None rows, [], None elements, order). Non-trivial: >= 2 pages with a boundary inside a "
        "row, or null elements, or empty lists.")
ASSUMPTIONS = [
    "refpq's shredder and assembler are independent of each other and self-validated (selftest, fixtures map_array / nested / datapage_v2)",
    "MAP rows are compared as dicts (generated keys are unique within a row)",
    "legacy 2-level LIST layouts are exercised by a probe only: the reader returns all-None for them (recorded finding)",
]
MANIFEST = {
    "category": "exploration",
    "technique": "differential property-based testing of record assembly: generated nested plans shredded by an independent Dremel implementation, expected rows from the plan",
    "text": "Generated LIST/MAP columns with null rows, empty collections, null elements and page boundaries inside rows are "
            "written by the independent encoder; fastparquet must assemble exactly the per-row lists/dicts the plan holds.",
    "note": "Trusted: refpq.dremel shredder + refpq.reader assembler (cross-checked per case), cramjam codecs.",
}
BUDGET = {"quick": {"shards": 8, "examples": 250, "wall": 110},
          "thorough": {"shards": 16, "examples": 8000, "wall": 1500}}
REPLAY_ISOLATED = True
PROBE_ISOLATED = True


def strategy(tier):
    from hypothesis import strategies as st
    # v2 pages of repeated columns are a recorded finding (C15-v2-nested): drawn in 1 of 8 cases only
    # ... except the one v2 layout the library does assemble (dictionary pages holding nulls, optional outer level)
    return st.integers(0, 8).flatmap(lambda k: plans.nested_plan(thorough=(tier == "thorough"), allow_v2=(k in (0, 8)), v2_working=(k == 8)))


def _eq_scalar(kind, e, g):
    if e is None:
        return g is None
    if g is None:
        return False
    if kind == "bool":
        return isinstance(g, (bool, np.bool_)) and bool(g) == e
    if kind in ("i32", "i64"):
        return isinstance(g, (int, np.integer)) and not isinstance(g, (bool, np.bool_)) and int(g) == e
    if kind == "f64":
        return isinstance(g, (float, np.floating)) and float(g).hex() == float(e).hex()
    if kind == "text":
        return isinstance(g, str) and g == e
    return False


def compare_rows(col, exp, got):
    if len(exp) != len(got):
        return ("length", "%d rows, expected %d" % (len(got), len(exp)))
    for i, (e, g) in enumerate(zip(exp, got)):
        if e is None:
            if g is not None and not (isinstance(g, float) and g != g):
                return ("null_row", "row %d: expected None got %r" % (i, g))
            continue
        if col["shape"] == "map":
            if not isinstance(g, dict):
                return ("row_type", "row %d: expected a dict got %r" % (i, g))
            ed = {(_k(k)): v for k, v in e}
            if len(ed) != len(g):
                return ("map_size", "row %d: expected %r got %r" % (i, e, g))
            for k, v in g.items():
                kk = _k(k)
                if kk not in ed:
                    return ("map_key", "row %d: unexpected key %r (expected %r)" % (i, k, e))
                if not _eq_scalar(col["ekind"], ed[kk], v):
                    return ("map_value", "row %d key %r: expected %r got %r" % (i, k, ed[kk], v))
            continue
        if not isinstance(g, (list, np.ndarray)):
            return ("row_type", "row %d: expected a list got %r" % (i, g))
        if len(g) != len(e):
            return ("list_length", "row %d: expected %r got %r" % (i, e, list(g)))
        for j, (x, y) in enumerate(zip(e, g)):
            if not _eq_scalar(col["ekind"], x, y):
                return ("element", "row %d element %d: expected %r got %r (row %r vs %r)" % (i, j, x, y, e, list(g)))
    return None


def _k(k):
    if isinstance(k, (np.integer,)):
        return int(k)
    if isinstance(k, bytes):
        return k.decode("utf8")
    return k


def run_case(case):
    import fastparquet
    from vf.refpq import reader, writer
    plan = case["plan"]
    try:
        data, model = writer.write_with_model(plan)
    except writer.PlanError as e:
        return discard("plan rejected by the encoder: %s" % str(e)[:60])
    back = reader.read(data)
    if [i for i in back.issues if i.kind != "unsupported"]:
        raise AssertionError("refpq.reader reports issues on a refpq.writer file: %s" % back.issues[0].detail)
    tb = back.table()
    if _norm(tb) != _norm(model.table):
        raise AssertionError("refpq.reader does not assemble the plan back")
    feats = model.features
    labels = ["shape:" + c["shape"] for c in case["cols"]] + ["elem:" + c["ekind"] for c in case["cols"]]
    labels += ["v%d" % v for v in feats.get("page_versions", [])] + ["enc:" + e for e in feats.get("encodings", [])]
    for k in ("page_split_inside_row", "null_elements", "empty_lists"):
        if feats.get(k):
            labels.append(k)
    labels += ["outer_opt" if c["outer_opt"] else "outer_req" for c in case["cols"]]
    labels += ["inner_opt" if c["inner_opt"] else "inner_req" for c in case["cols"]]
    labels.append("pages:%d" % min(feats.get("max_pages_per_chunk", 1), 4))
    if 2 in feats.get("page_versions", []):
        from vf.finding_predicates import v2_nested_working_region
        labels.append("v2:assembled_layout" if v2_nested_working_region(case) else "v2:outside_assembled_layout(C15-v2-nested)")
    with common.Scratch() as d:
        path = os.path.join(d, "n.parquet")
        with open(path, "wb") as f:
            f.write(data)
        try:
            out = fastparquet.ParquetFile(path).to_pandas()
        except Exception as e:
            return viol("read_raised|%s|%s" % (exc_sig(e), _ctx(case, feats)), exc_detail(e), labels=labels)
        for c in case["cols"]:
            name = c["name"]
            if name not in out.columns:
                return viol("names", "column %r missing from %r" % (name, list(out.columns)), labels=labels)
            exp = model.table[name]
            r = compare_rows(c, exp, out[name].tolist())
            if r:
                return viol("%s|%s|%s" % (r[0], c["shape"], _ctx(case, feats)), "column %r: %s" % (name, r[1]), labels=labels)
    nt = bool((feats.get("page_split_inside_row") and feats.get("max_pages_per_chunk", 1) >= 2) or feats.get("null_elements")
              or feats.get("empty_lists"))
    return ok(nt, sorted(set(labels)))


def _ctx(case, feats):
    vs = "+".join("v%d" % v for v in feats.get("page_versions", []))
    enc = "+".join(sorted(feats.get("encodings", [])))
    split = "split" if feats.get("page_split_inside_row") else "nosplit"
    return "%s|%s|%s" % (vs, enc, split)


def _norm(tb):
    def f(x):
        if isinstance(x, float) and x != x:
            return "nan"
        if isinstance(x, (list, tuple)):
            return [f(y) for y in x]
        if isinstance(x, dict):
            return {k: f(v) for k, v in x.items()}
        return x
    return {k: f(v) for k, v in tb.items()}


def probes():
    from vf.refpq import dremel
    node = dremel.list_schema("n0", {"physical": "INT32"}, list_optional=True, element_optional=False, layout="2level_primitive")
    legacy = {"plan": {"schema": [node], "row_groups": [{"data": {"n0": [[1, 2], [], None, [3]]}, "chunks": {}}]},
              "cols": [{"name": "n0", "shape": "list", "layout": "2level_primitive", "ekind": "i32", "outer_opt": True, "inner_opt": False, "leaves": 1}]}
    return [("C15-legacy-2level", legacy)]


def shrink_moves(case):
    plan = case["plan"]
    if len(plan["schema"]) > 1:
        for i in range(len(plan["schema"])):
            c = copy.deepcopy(case)
            name = c["plan"]["schema"][i]["name"]
            del c["plan"]["schema"][i]
            del c["cols"][i]
            for rg in c["plan"]["row_groups"]:
                rg["data"].pop(name, None)
                for k in [k for k in rg.get("chunks", {}) if k == name or k.startswith(name + ".")]:
                    del rg["chunks"][k]
            yield c
    if len(plan["row_groups"]) > 1:
        for i in range(len(plan["row_groups"])):
            c = copy.deepcopy(case)
            del c["plan"]["row_groups"][i]
            yield c
    for gi, rg in enumerate(plan["row_groups"]):
        n = len(next(iter(rg["data"].values()))) if rg["data"] else 0
        for cut in sorted({0, n // 2}):
            if 0 <= cut < n:
                c = copy.deepcopy(case)
                for k in c["plan"]["row_groups"][gi]["data"]:
                    c["plan"]["row_groups"][gi]["data"][k] = c["plan"]["row_groups"][gi]["data"][k][:cut]
                yield c
        for i in range(n):
            c = copy.deepcopy(case)
            for k in c["plan"]["row_groups"][gi]["data"]:
                del c["plan"]["row_groups"][gi]["data"][k][i]
            yield c
        for name, rows in rg["data"].items():
            for i, row in enumerate(rows):
                if row:
                    c = copy.deepcopy(case)
                    c["plan"]["row_groups"][gi]["data"][name][i] = row[:-1]
                    yield c
        for lp, cp in rg.get("chunks", {}).items():
            if cp.get("codec", "UNCOMPRESSED") != "UNCOMPRESSED":
                c = copy.deepcopy(case)
                c["plan"]["row_groups"][gi]["chunks"][lp]["codec"] = "UNCOMPRESSED"
                yield c
            pages = cp.get("pages", [])
            if len(pages) > 1:
                for pi in range(len(pages)):
                    c = copy.deepcopy(case)
                    del c["plan"]["row_groups"][gi]["chunks"][lp]["pages"][pi]
                    yield c
            for pi, p in enumerate(pages):
                for k in ("def_runs", "rep_runs", "bit_width", "is_compressed"):
                    if p.get(k) is not None:
                        c = copy.deepcopy(case)
                        c["plan"]["row_groups"][gi]["chunks"][lp]["pages"][pi][k] = None
                        yield c
                if p.get("encoding", "PLAIN") != "PLAIN":
                    c = copy.deepcopy(case)
                    c["plan"]["row_groups"][gi]["chunks"][lp]["pages"][pi]["encoding"] = "PLAIN"
                    yield c
                if p.get("version", 1) == 2:
                    c = copy.deepcopy(case)
                    c["plan"]["row_groups"][gi]["chunks"][lp]["pages"][pi]["version"] = 1
                    c["plan"]["row_groups"][gi]["chunks"][lp]["pages"][pi].pop("is_compressed", None)
                    yield c


def abbreviate(case):
    plan = case["plan"]
    return {"cols": case["cols"],
            "row_groups": [{"data": {k: v[:6] for k, v in rg["data"].items()},
                            "chunks": {k: {"codec": v.get("codec"), "pages": [{kk: vv for kk, vv in p.items() if vv is not None and kk not in ("def_runs", "rep_runs")}
                                                                            for p in v.get("pages", [])][:3]} for k, v in rg.get("chunks", {}).items()}}
                           for rg in plan["row_groups"][:2]]}
