"""C14 - opening or merging many files yields their concatenation."""
import copy
import os

import numpy as np
import pandas as pd
from hypothesis import strategies as st

from vf import cases, common, shrinkers
from vf.cases import MISSING
from vf.gen import frames
from vf.model import table
from vf.runner import discard, exc_detail, exc_sig, ok, viol

ID = "C14"
LEVEL = "exploration"
RULE = ("Hypothesis draws 1-6 single files written with the same column names/dtypes but independent values, row counts (incl. 0), "
        "codecs and row-group splits (categorical columns with equal or, in 1 of 4 cases, independent category lists), placed in a "
        "flat directory, hive (k=v/ one or two levels) or drill (v/) shape, and an opening mode: list of absolute paths, list of "
        "relative paths, directory without _metadata, glob, writer.merge() then open the directory; root given or inferred; plus a "
        "schema-mismatch variant opened with verify_schema=True. A unique _rid column identifies rows. Oracle: rows = concatenation of "
        "the files in the given order (directory/glob: sorted path order, checked per file), total count() and len match, every value "
        "equals the model, partition columns inferred from the directory names carry the right value for every row (ints as ints, "
        "plain text as text), and a mismatching schema is rejected when verification is requested. Non-trivial: >= 3 files (the "
        "footer-gathering path) or a partitioned shape.")
ASSUMPTIONS = [
    "partition directory values are plain integers or purely alphabetic words, so that the documented text coercion is unambiguous",
    "files whose categorical columns list different categories hit the recorded per-row-group-dictionary finding (same root cause as C07)",
]
MANIFEST = {
    "category": "exploration",
    "technique": "model-based property testing of multi-file opening: generated file sets x directory shapes x opening modes against a concatenation model with row ids",
    "text": "Generated sets of compatible files in flat/hive/drill shapes opened through every multi-file entry point must read as "
            "the concatenation of the files with correctly inferred partition columns; mismatching schemas must be rejected under verify; "
            "the footer length of a later file is swept byte by byte around the speculative read size derived from the first file.",
    "note": "Trusted: the expected-table model of C01 per file; os-level directory construction.",
}
BUDGET = {"quick": {"shards": 8, "examples": 250, "wall": 110},
          "thorough": {"shards": 16, "examples": 3000, "wall": 1500}}
VALUE_KINDS = ["int", "float", "text", "bool", "datetime", "category", "nullable"]
WORDS = ["a", "b", "c", "x", "abc", "zz"]


@st.composite
def strategy_(draw, thorough):
    fr0 = draw(frames.frame(kinds=VALUE_KINDS, max_cols=3, index=False, rows=[0, 1, 2, 3, 5, 9]))
    frames.pin_object_schema(fr0)
    if fr0["n"] == 0:
        fr0["n"] = 1
    nfiles = draw(st.sampled_from([1, 2, 2, 3, 3, 4, 5, 6]))
    same_cats = draw(st.integers(0, 3)) > 0
    files = [fr0] + [frames.pin_object_schema(draw(frames.compatible_frame(fr0, rows=[0, 1, 2, 3, 5, 9], same_categories=same_cats)))
                     for _ in range(nfiles - 1)]
    for f in files:
        # an object column without any value would be stored with another type than in the other files
        if f["n"] == 0 and any(c["kind"] in ("text", "bytes", "json") for c in f["cols"]):
            f["n"] = 1
            frames.pin_object_schema(f)
    shape = draw(st.sampled_from(["flat", "flat", "hive1", "hive2", "drill1"]))
    ptype = draw(st.sampled_from(["int", "word"]))
    pvals = []
    for _ in range(nfiles):
        if shape == "flat":
            pvals.append([])
        else:
            lv = 2 if shape == "hive2" else 1
            pvals.append([draw(st.integers(0, 3)) if ptype == "int" else draw(st.sampled_from(WORDS)) for _ in range(lv)])
    fopts = [{"compression": draw(st.sampled_from([None, "SNAPPY", "GZIP", "ZSTD"])), "rgo": draw(frames.row_group_offsets(f["n"])),
              "ext": draw(st.sampled_from([".parquet", ".parquet", ".parq"]))} for f in files]
    mode = draw(st.sampled_from(["list_abs", "list_abs", "list_rel", "directory", "glob", "merge"]))
    case = {"files": files, "fopts": fopts, "shape": shape, "pvals": pvals, "mode": mode,
            "root": draw(st.sampled_from(["inferred", "inferred", "given"])), "order": draw(st.permutations(list(range(nfiles)))),
            "mismatch": False}
    if nfiles >= 2 and draw(st.integers(0, 7)) == 0:
        case["mismatch"] = True     # last file gets a renamed column; opened with verify_schema=True
        case["mode"] = draw(st.sampled_from(["list_abs", "merge"]))
    return case


@st.composite
def sweep_(draw):
    """Footers of later files around the size of the first file's footer: opening a list of >= 3 files fetches the tails of
    the later files speculatively, sized from the first file's footer, and must fetch again when a footer is longer."""
    return {"sweep": {"nfiles": draw(st.sampled_from([3, 3, 4])), "which": draw(st.integers(1, 3)),
                      "pad0": draw(st.sampled_from([0, 0, 7, 100, 301])), "ncols": draw(st.integers(1, 4)),
                      "rows": draw(st.sampled_from([1, 3, 20])), "mode": draw(st.sampled_from(["list", "merge", "directory"]))}}


@st.composite
def catgrow_(draw):
    """Files whose categorical column has different numbers of labels, not growing monotonically and crossing the int8
    code width: the handle must report enough room for every row group, and each row group must read on its own
    (reading them all at once is the recorded finding about per-file dictionaries; it is not attempted here)."""
    counts = draw(st.sampled_from([[50, 200, 100], [200, 50, 100], [10, 130, 20], [128, 127, 129], [100, 200], [127, 128, 3, 300]]))
    return {"catgrow": {"counts": counts, "mode": draw(st.sampled_from(["list", "directory", "merge"])),
                        "form": draw(st.sampled_from(["default", "list"]))}}


def strategy(tier):
    return st.integers(0, 19).flatmap(lambda k: sweep_() if k in (0, 1) else catgrow_() if k == 2 else strategy_(tier == "thorough"))


def _catgrow(case):
    import fastparquet
    import pandas as pd
    cg = case["catgrow"]
    counts = cg["counts"]
    labels = ["catgrow", "mode:" + cg["mode"], "files:%d" % len(counts)]
    frames_ = []
    for i, n in enumerate(counts):
        labs = ["L%d_%04d" % (i, j) for j in range(n)]
        frames_.append(pd.DataFrame({"c": pd.Categorical(labs, categories=labs), "v": np.arange(n, dtype="int64") + 1000 * i}))
    with common.Scratch() as d:
        root = os.path.join(d, "ds")
        os.makedirs(root)
        paths = [os.path.join(root, "f%d.parquet" % i) for i in range(len(counts))]
        for p, f in zip(paths, frames_):
            fastparquet.write(p, f)
        try:
            if cg["mode"] == "list":
                pf = fastparquet.ParquetFile(list(paths))
            elif cg["mode"] == "directory":
                pf = fastparquet.ParquetFile(root)
            else:
                fastparquet.writer.merge(list(paths))
                pf = fastparquet.ParquetFile(root)
            claimed = pf.categories
        except Exception as e:
            return viol("open_or_read_raised|catgrow|" + exc_sig(e), exc_detail(e), labels=labels)
        if int(claimed.get("c", 0)) < max(counts):
            return viol("categories_count|catgrow", "categories reports %r labels for 'c', one file holds %d" % (claimed.get("c"), max(counts)),
                        labels=labels)
        kw = {"categories": ["c"]} if cg["form"] == "list" else {}
        for i in range(len(pf.row_groups)):
            try:
                piece = pf[i].to_pandas(**kw)
            except Exception as e:
                return viol("piece_read_raised|catgrow|" + exc_sig(e), "pf[%d].to_pandas(%r): %s" % (i, kw, exc_detail(e)), labels=labels)
            k = int(piece["v"].iloc[0]) // 1000 if len(piece) else None
            if k is None or piece["c"].astype(object).tolist() != frames_[k]["c"].astype(object).tolist():
                return viol("piece_value|catgrow", "row group %d: labels differ from the file it came from" % i, labels=labels)
    return ok(True, labels)


def _footer_len(path):
    with open(path, "rb") as f:
        f.seek(-8, 2)
        return int.from_bytes(f.read(4), "little")


def _footer_sweep(case):
    import fastparquet
    import pandas as pd
    sw = case["sweep"]
    n, which = sw["nfiles"], min(sw["which"], sw["nfiles"] - 1)
    labels = ["footer_sweep", "mode:" + sw["mode"], "files:%d" % n]
    frames_ = [pd.DataFrame({"c%d" % j: np.arange(i * 100, i * 100 + sw["rows"], dtype="int64") + j for j in range(sw["ncols"])})
               for i in range(n)]
    exp = pd.concat(frames_, ignore_index=True)
    seen, bad, execs = set(), None, 0
    with common.Scratch() as d:
        root = os.path.join(d, "ds")
        os.makedirs(root)
        paths = [os.path.join(root, "f%d.parquet" % i) for i in range(n)]
        for i in range(n):
            if i != which:
                fastparquet.write(paths[i], frames_[i], custom_metadata=({"pad": "x" * sw["pad0"]} if i == 0 and sw["pad0"] else None))
        l0 = _footer_len(paths[0])
        fastparquet.write(paths[which], frames_[which], custom_metadata={"pad": ""})
        base = _footer_len(paths[which])
        lo, hi = int(1.4 * l0) - 24, int(1.4 * (l0 + 8)) + 12
        for target in range(max(lo, base), hi + 1):
            fastparquet.write(paths[which], frames_[which], custom_metadata={"pad": "x" * (target - base)})
            got_len = _footer_len(paths[which])
            if got_len in seen:
                continue
            seen.add(got_len)
            execs += 1
            try:
                if sw["mode"] == "list":
                    pf = fastparquet.ParquetFile(list(paths))
                elif sw["mode"] == "directory":
                    pf = fastparquet.ParquetFile(root)
                else:
                    for fn in ("_metadata", "_common_metadata"):
                        if os.path.exists(os.path.join(root, fn)):
                            os.unlink(os.path.join(root, fn))
                    fastparquet.writer.merge(list(paths))
                    pf = fastparquet.ParquetFile(root)
                out = pf.to_pandas()
            except Exception as e:
                bad = ("open_or_read_raised|footer_sweep|" + exc_sig(e),
                       "first footer %d bytes, file %d footer %d bytes: %s" % (l0, which, got_len, exc_detail(e)))
                break
            if len(out) != len(exp) or any(out[c].tolist() != exp[c].tolist() for c in exp.columns):
                bad = ("content|footer_sweep", "first footer %d bytes, file %d footer %d bytes: rows differ" % (l0, which, got_len))
                break
    if bad:
        return viol(bad[0], bad[1], labels=labels)
    out = ok(execs >= 20, labels)
    out["sub_evals"] = max(1, execs)
    out["sub_nt"] = ["len%d" % x for x in sorted(seen)]
    return out


def _relpath(case, i):
    shape = case["shape"]
    ext = case["fopts"][i]["ext"] if case["mode"] not in ("glob",) else ".parquet"
    fn = "f%d%s" % (i, ext)
    pv = case["pvals"][i]
    if shape == "flat":
        return fn
    if shape.startswith("hive"):
        return "/".join("k%d=%s" % (j, v) for j, v in enumerate(pv)) + "/" + fn
    return "/".join(str(v) for v in pv) + "/" + fn


def run_case(case):
    import fastparquet
    from fastparquet import writer as fwriter
    if "sweep" in case:
        return _footer_sweep(case)
    if "catgrow" in case:
        return _catgrow(case)
    files, shape, mode = case["files"], case["shape"], case["mode"]
    n = len(files)
    labels = ["shape:" + shape, "mode:" + mode, "files:%d" % n, "root:" + case["root"]]
    fr0 = files[0]
    colspec = {c["name"]: c for c in fr0["cols"]}
    if any(c["kind"] == "category" for c in fr0["cols"]):
        labels.append("categorical")
    for fr in files:
        for c in fr["cols"]:
            if c["kind"] in ("text", "bytes", "json") and all(v is MISSING for v in cases.raw_values(c, fr["n"])):
                return discard("object column without any value in one file (its stored type would differ)", labels)
    with common.Scratch() as d:
        root = os.path.join(d, "ds")
        os.makedirs(root)
        base = 0
        exp_rows = {}           # rid -> ({col: cell}, partition values)
        per_file = []
        paths = []
        for i, fr in enumerate(files):
            df = cases.build_frame(fr)
            if case["mismatch"] and i == n - 1:
                df = df.rename(columns={fr["cols"][0]["name"]: fr["cols"][0]["name"] + "_x"})
            df["_rid"] = np.arange(base, base + fr["n"], dtype="int64")
            cells = {c["name"]: cases.expected_column(c, fr["n"]) for c in fr["cols"]}
            rids = list(range(base, base + fr["n"]))
            for k, rid in enumerate(rids):
                exp_rows[rid] = ({nm: cells[nm][k] for nm in cells}, list(case["pvals"][i]))
            per_file.append(rids)
            base += fr["n"]
            p = os.path.join(root, _relpath(case, i))
            os.makedirs(os.path.dirname(p), exist_ok=True)
            try:
                fastparquet.write(p, df, compression=case["fopts"][i]["compression"], row_group_offsets=case["fopts"][i]["rgo"])
            except Exception as e:
                return discard("write_raised", labels)
            paths.append(p)
        order = [i for i in case["order"] if i < n]
        given = [paths[i] for i in order]
        kw = {}
        if case["root"] == "given" and mode in ("list_abs", "merge"):
            kw["root"] = root
        cwd = os.getcwd()
        try:
            try:
                if case["mismatch"]:
                    try:
                        if mode == "merge":
                            fwriter.merge(given, verify_schema=True, **kw)
                        else:
                            fastparquet.ParquetFile(given, verify=True, **kw)
                    except Exception:
                        return ok(True, labels + ["mismatch_rejected"])
                    return viol("schema_mismatch_accepted|" + mode, "files with different column names were accepted with verification on", labels=labels)
                if mode == "list_abs":
                    pf = fastparquet.ParquetFile(given, **kw)
                    seq = order
                elif mode == "list_rel":
                    os.chdir(root)
                    pf = fastparquet.ParquetFile([os.path.relpath(p, root) for p in given])
                    seq = order
                elif mode == "directory":
                    pf = fastparquet.ParquetFile(root)
                    seq = None
                elif mode == "glob":
                    depth = {"flat": 0, "hive1": 1, "hive2": 2, "drill1": 1}[shape]
                    pf = fastparquet.ParquetFile(root + "/" + "*/" * depth + "*.parquet")
                    seq = None
                else:
                    merged = fwriter.merge(given, **kw)
                    pf = fastparquet.ParquetFile(merged.fn)     # the summary file merge() wrote (at the inferred base path)
                    seq = order
                out = pf.to_pandas()
                cnt = pf.count()
            except Exception as e:
                return viol("open_or_read_raised|%s|%s|%s" % (mode, "part" if shape != "flat" else "flat", exc_sig(e)), exc_detail(e), labels=labels)
        finally:
            os.chdir(cwd)
        rr = [int(x) for x in out["_rid"].tolist()] if "_rid" in out.columns else None
        if rr is None:
            return viol("names", "no _rid column in %r" % list(out.columns), labels=labels)
        if seq is not None:
            want = [rid for i in seq for rid in per_file[i]]
            if rr != want:
                kind = "rows_lost" if set(want) - set(rr) else "rows_extra" if set(rr) - set(want) else "order"
                return viol("%s|%s" % (kind, mode), "row ids %r, expected concatenation %r" % (rr[:40], want[:40]), labels=labels)
        else:
            if sorted(rr) != sorted(exp_rows):
                return viol("rows_multiset|" + mode, "row ids %r vs %r" % (sorted(rr)[:40], sorted(exp_rows)[:40]), labels=labels)
            pos = {rid: k for k, rid in enumerate(rr)}
            for rids in per_file:
                ks = [pos[r] for r in rids]
                if ks != list(range(ks[0], ks[0] + len(ks))) if ks else False:
                    return viol("file_rows_not_contiguous|" + mode, "rows of one file are not read contiguously in order: %r" % rr[:40], labels=labels)
        if cnt != len(rr):
            return viol("count|" + mode, "count()=%r, rows read %d" % (cnt, len(rr)), labels=labels)
        for nm, c in colspec.items():
            if nm not in out.columns:
                return viol("names", "column %r missing from %r" % (nm, list(out.columns)), labels=labels)
            got, problems = table.canon_cells(out[nm], c)
            if problems:
                return viol("celltype|" + c["kind"], problems[0], labels=labels)
            for k, rid in enumerate(rr):
                e, g = exp_rows[rid][0][nm], got[k]
                if (e is MISSING) != (g is MISSING) or (e is not MISSING and (type(e) is not type(g) or e != g)):
                    return viol("value|%s|%s" % (c["kind"], mode), "column %r row id %d: expected %r got %r" % (nm, rid, e, g), labels=labels)
        if shape != "flat" and len(rr):
            lv = 2 if shape == "hive2" else 1
            # Levels shared by every file are part of the inferred base path unless the root is known
            # (documented: "the top directory may be ambiguous ... use root"); directory mode knows it.
            root_known = mode == "directory" or (case["root"] == "given" and mode in ("list_abs", "merge"))
            used = [case["pvals"][i] for i in (seq if seq is not None else range(n))]
            cp = 0
            if not root_known:
                while cp < lv and len({tuple(pv[: cp + 1]) for pv in used}) == 1:
                    cp += 1
            names = [("k%d" % j if shape.startswith("hive") else "dir%d" % (j - cp), j) for j in range(cp, lv)]
            if cp:
                labels.append("ambiguous_top_level")
            for pn, j in names:
                if pn not in out.columns:
                    return viol("partition_column_missing|%s|%s" % (shape, mode), "partition column %r not inferred; columns %r" % (pn, list(out.columns)), labels=labels)
                vals = out[pn].astype(object).tolist()
                for k, rid in enumerate(rr):
                    e = exp_rows[rid][1][j]
                    g = vals[k]
                    okv = (isinstance(e, int) and isinstance(g, (int, np.integer)) and not isinstance(g, (bool, np.bool_)) and int(g) == e) or \
                          (isinstance(e, str) and isinstance(g, str) and g == e)
                    if not okv:
                        return viol("partition_value|%s|%s" % (shape, mode), "partition %r of row id %d: expected %r got %r" % (pn, rid, e, g), labels=labels)
    nt = n >= 3 or shape != "flat"
    return ok(nt, labels)


def shrink_moves(case):
    if "sweep" in case or "catgrow" in case:
        return
    n = len(case["files"])
    if n > 1:
        for i in range(n):
            if case["mismatch"] and n == 2:
                break
            c = copy.deepcopy(case)
            del c["files"][i]
            del c["fopts"][i]
            del c["pvals"][i]
            c["order"] = [x if x < i else x - 1 for x in c["order"] if x != i]
            yield c
    if case["order"] != sorted(case["order"]):
        c = copy.deepcopy(case)
        c["order"] = sorted(case["order"])
        yield c
    if case["root"] != "inferred":
        c = copy.deepcopy(case)
        c["root"] = "inferred"
        yield c
    for i, fo in enumerate(case["fopts"]):
        for k, v in (("compression", None), ("rgo", None), ("ext", ".parquet")):
            if fo.get(k) != v:
                c = copy.deepcopy(case)
                c["fopts"][i][k] = v
                yield c
    names = [c["name"] for c in case["files"][0]["cols"]]
    if len(names) > 1:
        for nm in names:
            c = copy.deepcopy(case)
            for f in c["files"]:
                f["cols"] = [x for x in f["cols"] if x["name"] != nm]
            yield c
    for i, f in enumerate(case["files"]):
        for new_n in sorted({0, 1, f["n"] - 1}):
            if 0 <= new_n < f["n"] and not (i == 0 and new_n == 0):
                c = copy.deepcopy(case)
                c["files"][i]["n"] = new_n
                yield c
        for ci, col in enumerate(f["cols"]):
            for nc in shrinkers.column_moves(col):
                c = copy.deepcopy(case)
                c["files"][i]["cols"][ci] = nc
                yield c


def abbreviate(case):
    if "sweep" in case or "catgrow" in case:
        return case
    return {"files": [shrinkers.abbreviate_frame(f) for f in case["files"]], "shape": case["shape"], "pvals": case["pvals"],
            "mode": case["mode"], "root": case["root"], "order": case["order"], "mismatch": case["mismatch"]}
