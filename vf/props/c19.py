"""C19 - an append interrupted before its metadata update leaves the old dataset intact."""
import copy
import os
import shutil

import numpy as np
from hypothesis import strategies as st

from vf import cases, common, dsinv, shrinkers
from vf.faultfs import FaultFS, InjectedIOError
from vf.gen import datasets, frames
from vf.model import frames_eq
from vf.runner import discard, exc_detail, exc_sig, ok, viol

ID = "C19"
LEVEL = "fault_enumeration"
RULE = ("Hypothesis draws a hive dataset shape (with/without partitions, 1-3 existing part files) and an append producing 1-m new "
        "part files (through write(append=True) or write_row_groups). A dry run through the fault-injecting open_with/mkdirs "
        "layer numbers every filesystem event (open-for-write, write, close, mkdir); then EVERY event k before the first "
        "open-for-write of _metadata is failed once as 'raise instead' (opens for reading are events too), every write event once more "
        "as 'partial write then raise' and once as 'this and every later write fails' (a full disk), every close once more as 'the "
        "close fails and what was written since the open is lost' (a store that uploads on close), each on a fresh copy of the "
        "dataset (exhaustive per shape); the dataset's history may hold a removed row group or row groups re-ordered by a sort key. Oracle: if the append reported failure a fresh "
        "ParquetFile(dir) reads exactly the previous content and satisfies the metadata/directory agreement for referenced "
        "files; if it returned normally a fresh open sees exactly old+new; no event ever opens a pre-existing data file for "
        "writing. Non-trivial execution: the fault hits after >= 1 new part file was completely written. Distinct = (shape, k, mode).")
ASSUMPTIONS = [
    "faults are injected at the open_with/mkdirs boundary the API offers; failures inside a lower layer (e.g. fsync) are out of scope",
    "a failed close() leaves the bytes already written on disk in the 'raise' flavour and loses them in the 'lost' flavour",
    "unreferenced part files left behind by the failed attempt are allowed (the property speaks of content)",
]
MANIFEST = {
    "category": "fault_enumeration",
    "technique": "exhaustive fault injection at every filesystem event of generated append shapes (Hypothesis draws the shapes, k is enumerated), differential against the pre-append content",
    "text": "Every filesystem call issued by an append before the summary metadata starts being rewritten is failed once (and "
            "every write once more half-way); after each failure a fresh open must see exactly the old content (or exactly "
            "old+new if the append returned normally), no pre-existing data file may ever be opened for writing, and the summary "
            "is opened for writing only after the last data-file event. Histories include a removed row group; the caller's I/O is "
            "given as two callables or as an fsspec filesystem (renames and removals are events too).",
    "note": "Trusted: the fault layer (vf/faultfs.py) and plain file copies of the base dataset. Exhaustive in k per generated "
            "shape; the shapes themselves are sampled.",
}
BUDGET = {"quick": {"shards": 8, "examples": 8, "wall": 110},
          "thorough": {"shards": 16, "examples": 250, "wall": 1500}}
VALUE_KINDS = ["int", "float", "text", "bool", "datetime", "category", "nullable"]


@st.composite
def strategy_(draw, thorough):
    base = draw(datasets.dataset(thorough=False, partition_prob=5, min_rows=draw(st.sampled_from([1, 2, 3])),
                                 value_kinds=VALUE_KINDS))
    fr0, opts = base["frame"], base["opts"]
    opts["file_scheme"] = "hive"
    opts["page_size"] = None
    opts["write_index"] = False
    fr0["index"] = None
    opts["has_nulls"] = True
    if fr0["n"] >= 2 and draw(st.booleans()):
        opts["rgo"] = draw(st.integers(1, fr0["n"]))
    pn = list(base.get("partition_on") or [])
    vfr = {"n": 0, "cols": [c for c in fr0["cols"] if c["name"] not in pn], "index": None}
    nf = draw(frames.compatible_frame(vfr, rows=[1, 2, 3, 4, 6], same_categories=True))
    if nf["n"] == 0:
        nf["n"] = 1
    cols, it = [], iter(nf["cols"])
    for c in fr0["cols"]:
        if c["name"] in pn:
            pc = copy.deepcopy(c)
            pc["idx"] = draw(st.lists(st.integers(0, 5), min_size=1, max_size=8))
            pc["null"] = {"pat": "none", "mask": []}
            cols.append(pc)
        else:
            cols.append(next(it))
    nf["cols"] = cols
    return {"base": fr0, "opts": opts, "partition_on": pn, "new": nf,
            "pre_remove": draw(st.sampled_from([None, None, 0, 1])),
            # an earlier insert that re-ordered the row groups without renaming the files (write_row_groups with a sort key)
            "pre_sorted": draw(st.sampled_from([False, False, True])),
            "rgo": draw(st.one_of(st.none(), st.integers(1, max(1, nf["n"])))),
            "via": draw(st.sampled_from(["write", "write", "write_row_groups"])), "k": None,
            "flavour": draw(st.sampled_from(["callables", "fsspec"]))}


def strategy(tier):
    return strategy_(tier == "thorough")


def _append(path, df, case, fs):
    import fastparquet
    pn = list(case["partition_on"])
    open_with, mkdirs = fs.open_with, fs.mkdirs
    if case.get("flavour") == "fsspec":
        # the caller's I/O is a filesystem object (what dask passes): renames and removals are events too
        from vf.faultfs import as_fsspec
        lfs = as_fsspec(fs)
        open_with, mkdirs = lfs.open, (lambda d: lfs.mkdirs(d, exist_ok=True))
    if case["via"] == "write":
        kw = {"append": True, "file_scheme": "hive", "row_group_offsets": case["rgo"],
              "open_with": open_with, "mkdirs": mkdirs}
        if pn:
            kw["partition_on"] = pn
        fastparquet.write(path, df, **kw)
    else:
        pf = fastparquet.ParquetFile(path, open_with=open_with) if case.get("flavour") == "fsspec" else fastparquet.ParquetFile(path)
        pf.write_row_groups(df, row_group_offsets=case["rgo"], open_with=open_with, mkdirs=mkdirs)


def _content(path):
    import fastparquet
    return fastparquet.ParquetFile(path).to_pandas()


def _same(a, b):
    """Order-insensitive on purpose? No: row-group order is part of the content."""
    pc = [c for c in a.columns if str(a[c].dtype) == "category" and str(b[c].dtype) == "category"] if list(a.columns) == list(b.columns) else []
    r = frames_eq.frames_equal(a, b, check_categories=False)
    return r


def _data_files(path):
    out = set()
    for root, _, fns in os.walk(path):
        for fn in fns:
            if fn.endswith(".parquet"):
                out.add(os.path.join(root, fn))
    return out


def run_case(case):
    import fastparquet
    import pandas as pd
    labels = ["via:" + case["via"], "io:" + case.get("flavour", "callables")] + (["partitioned"] if case["partition_on"] else [])
    opts = case["opts"]
    with common.Scratch() as d:
        basep = os.path.join(d, "base")
        df0 = cases.build_frame(case["base"])
        df1 = cases.build_frame(case["new"])
        kw = cases.write_kwargs(opts)
        if case["partition_on"]:
            kw["partition_on"] = list(case["partition_on"])
        try:
            fastparquet.write(basep, df0, **kw)
            if case.get("pre_remove") is not None:
                # the dataset's history before the append: a row group was removed (part numbers now have a gap)
                pf_ = fastparquet.ParquetFile(basep)
                if len(pf_.row_groups) >= 2:
                    pf_.remove_row_groups([pf_.row_groups[case["pre_remove"] % (len(pf_.row_groups) - 1)]])
                    labels.append("gap_in_part_numbers")
            if case.get("pre_sorted"):
                import re

                def newest_first(rg):
                    m = re.search(r"part\.(\d+)\.parquet$", rg.columns[0].file_path or "")
                    return -int(m.group(1)) if m else 0
                pf_ = fastparquet.ParquetFile(basep)
                d_ = df1
                if pf_._get_index():
                    from fastparquet.util import reset_row_idx
                    d_ = reset_row_idx(df1)
                pf_.write_row_groups(d_, row_group_offsets=case["rgo"], sort_key=newest_first)
                labels.append("row_groups_not_in_part_number_order")
            old = _content(basep)
        except Exception as e:
            return discard("base_write_or_read_raised", labels)
        # ---- dry run
        dry = os.path.join(d, "dry")
        shutil.copytree(basep, dry)
        fs = FaultFS(count_reads=True)
        existing = {os.path.relpath(p, basep) for p in _data_files(basep)}
        err = None
        try:
            _append(dry, df1, case, fs)
        except Exception as e:
            err = e
        # whatever else happened, a data file the dataset already had must not have been opened for writing
        bad = _opens_existing(fs.events, dry, existing)
        if bad:
            return viol("opens_existing_data_file|fault_free", bad, labels=labels)
        if err is not None:
            # an append that reports failure without any injected fault: the dataset must still read as before
            try:
                now = _content(dry)
            except Exception as e:
                return viol("unreadable_after_failed_append|fault_free|" + exc_sig(e),
                            "append raised %r (no fault injected); a fresh open then failed: %s" % (err, exc_detail(e)), labels=labels)
            r = _same(now, old)
            if r:
                return viol("content_changed_after_failed_append|fault_free|" + r[0],
                            "append raised %r (no fault injected) and the dataset no longer reads as before: %s" % (err, r[1]), labels=labels)
            return discard("fault_free_append_raised:" + exc_sig(err), labels)
        try:
            new = _content(dry)
        except Exception as e:
            return discard("fault_free_append_unreadable:" + exc_sig(e), labels)
        if len(new) != len(old) + len(_content_rows(df1, case)):
            return discard("fault_free_append_rowcount(C07)", labels)
        events = fs.events
        try:
            kmeta = next(i for i, (kind, p, info) in enumerate(events, 1) if kind == "open_w" and p.endswith("_metadata"))
        except StopIteration:
            return viol("no_metadata_rewrite", "the append never opened _metadata for writing; events=%r" % [(e[0], os.path.basename(e[1])) for e in events], labels=labels)
        # parts first, summary last: _metadata is not opened for writing while a new data file is still to be written
        last_data = max([i for i, (kind, p, info) in enumerate(events, 1) if p.endswith(".parquet")] or [0])
        if kmeta < last_data:
            return viol("summary_rewritten_before_parts_complete",
                        "event %d opens _metadata for writing, event %d still writes data file %r"
                        % (kmeta, last_data, os.path.basename(events[last_data - 1][1])), labels=labels)
        # first event after which at least one new part file is complete (closed)
        closed_parts = [i for i, (kind, p, info) in enumerate(events, 1) if kind == "close" and p.endswith(".parquet")]
        first_complete = closed_parts[0] if closed_parts else None
        plan = []
        # ... up to and including the open-for-write of _metadata itself: when that open fails the file is untouched,
        # the rewrite has not started
        ks = range(1, kmeta + 1) if case.get("k") is None else [case["k"]]
        for k in ks:
            plan.append((k, False))
            if events[k - 1][0] == "write" and (case.get("mode") in (None, "partial")):
                plan.append((k, True))
            if events[k - 1][0] == "write" and (case.get("mode") in (None, "persist")):
                # the fault does not go away: every later write fails as well (a full disk), opens still succeed
                plan.append((k, "persist"))
            if events[k - 1][0] == "close" and (case.get("mode") in (None, "lost")):
                # the close fails and what was written since the open is lost (upload on close, failed final flush)
                plan.append((k, "lost"))
        if case.get("mode") == "raise":
            plan = [(k, p) for k, p in plan if not p]
        elif case.get("mode") in ("partial", "lost", "persist") and case.get("k") is not None:
            plan = [(k, p) for k, p in plan if p]
        sub_nt = []
        n_exec = 0
        for k, partial in plan:
            run = os.path.join(d, "run")
            if os.path.exists(run):
                shutil.rmtree(run)
            shutil.copytree(basep, run)
            fsk = FaultFS(fail_at=k, partial=partial is True, lose_on_close=partial == "lost", persist=partial == "persist",
                          count_reads=True)
            raised = None
            try:
                _append(run, df1, case, fsk)
            except Exception as e:
                raised = e
            finally:
                fsk.close_all()
            n_exec += 1
            mode = partial if partial in ("lost", "persist") else "partial" if partial else "raise"
            kind = events[k - 1][0]
            tag = "k=%d/%d %s %s" % (k, kmeta - 1, kind, mode)
            if len(fsk.events) < k:
                # the event sequence diverged from the dry run: nothing was injected
                continue
            bad = _opens_existing(fsk.events, run, existing)
            if bad:
                return viol("opens_existing_data_file|" + kind, "%s: %s" % (tag, bad), labels=labels, fault={"k": k, "mode": mode})
            try:
                now = _content(run)
            except Exception as e:
                return viol("unreadable_after_fault|%s|%s|%s" % (kind, "raised" if raised else "returned", exc_sig(e)),
                            "%s (append %s): fresh open failed: %s" % (tag, "raised %r" % raised if raised else "returned normally", exc_detail(e)),
                            labels=labels, fault={"k": k, "mode": mode})
            if raised is not None:
                r = _same(now, old)
                if r:
                    return viol("content_changed_after_failed_append|%s|%s" % (kind, r[0]),
                                "%s: append raised %r but the dataset no longer reads as before: %s" % (tag, raised, r[1]),
                                labels=labels, fault={"k": k, "mode": mode})
                r = dsinv.agreement(run, unreferenced_is_violation=False)
                if r:
                    return viol("agreement_after_failed_append|%s|%s" % (kind, r[0]), "%s: %s" % (tag, r[1]), labels=labels,
                                fault={"k": k, "mode": mode})
            else:
                r = _same(now, new)
                if r:
                    return viol("swallowed_fault_wrong_content|%s|%s" % (kind, r[0]),
                                "%s: append returned normally but a fresh open does not see old+new: %s" % (tag, r[1]),
                                labels=labels, fault={"k": k, "mode": mode})
            if first_complete is not None and k > first_complete:
                sub_nt.append("%d:%s" % (k, mode))
        labels.append("events_before_metadata:%s" % ("<10" if kmeta < 10 else "10-19" if kmeta < 20 else "20-39" if kmeta < 40 else ">=40"))
        labels.append("new_parts:%d" % min(len(closed_parts), 4))
        out = ok(bool(sub_nt), labels)
        out["sub_evals"] = max(1, n_exec)
        out["sub_nt"] = sub_nt
        return out


def _content_rows(df1, case):
    pn = list(case["partition_on"])
    return df1.dropna(subset=pn) if pn else df1


def _opens_existing(events, root, existing):
    for kind, p, info in events:
        if kind == "open_w" and p.endswith(".parquet"):
            rel = os.path.relpath(p, root)
            if rel in existing or (info or {}).get("existed"):
                return "existing data file %r was opened with mode %r" % (rel, (info or {}).get("mode"))
    return None


def shrink_moves(case):
    # pin the failing fault point first, then simplify the shape
    for key in ("base", "new"):
        fr = case[key]
        for f in shrinkers.frame_moves(fr):
            names = {c["name"] for c in f["cols"]}
            if not set(case["partition_on"]) <= names or len(names - set(case["partition_on"])) < 1:
                continue
            if f["n"] < 1:
                continue
            other = case["new" if key == "base" else "base"]
            if names != {c["name"] for c in other["cols"]}:
                continue
            c = copy.deepcopy(case)
            c[key] = f
            yield c
    if case.get("rgo") is not None:
        c = copy.deepcopy(case)
        c["rgo"] = None
        yield c
    if case["via"] != "write":
        c = copy.deepcopy(case)
        c["via"] = "write"
        yield c
    if case.get("pre_sorted"):
        c = copy.deepcopy(case)
        c["pre_sorted"] = False
        yield c
    if case.get("pre_remove") is not None:
        c = copy.deepcopy(case)
        c["pre_remove"] = None
        yield c


def abbreviate(case):
    return {"base": shrinkers.abbreviate_frame(case["base"]), "new": shrinkers.abbreviate_frame(case["new"]),
            "partition_on": case["partition_on"], "rgo": case["rgo"], "via": case["via"],
            "base_rgo": case["opts"].get("rgo"), "k": "all events before the first open-for-write of _metadata"}
