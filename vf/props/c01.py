"""C01 - write -> read round trip returns the same table under every write option."""
import os

from hypothesis import strategies as st

from vf import cases, common
from vf.gen import frames
from vf.model import table
from vf.runner import discard, exc_detail, exc_sig, ok, viol
from vf import shrinkers

ID = "C01"
LEVEL = "exploration"
RULE = ("Hypothesis draws (frame case x write-option case); fastparquet.write then ParquetFile.to_pandas; "
        "the result is compared cell by cell with the expected table computed from the case alone. "
        "A case is non-trivial when the write succeeded, n >= 1 and at least one of: missing cells, "
        ">= 2 row groups, >= 2 pages in a chunk, a codec, data page v2, >= 2 column kinds, a written "
        "non-range index. Distinct = distinct sha256 of the canonical JSON case.")
ASSUMPTIONS = [
    "pandas/numpy construct the input frame from the case as the builder intends (vf/cases.py)",
    "a raising write is an allowed outcome (property text); a raising read after a successful write is not",
    "unnamed written index may come back named None or 'index' (pandas reset_index naming)",
]
MANIFEST = {
    "category": "exploration",
    "technique": "property-based round-trip testing (Hypothesis-generated frames x write options) against an independent expected-table model",
    "text": "Generated search over the product of 11 column kinds, 6 null patterns, boundary row counts and ~10 independent "
            "write options; every successful write is read back and compared cell by cell (values, missingness, dtype, "
            "index, categorical labels/order/codes) with a table computed from the case alone. Finds counterexamples, "
            "does not establish absence.",
    "note": "Trusted: pandas/numpy building the input frame from the case; the expected-table model in vf/cases.py + "
            "vf/model/table.py. A write that refuses (ValueError, TypeError, NotImplementedError) is an allowed outcome; an AttributeError at write is reported as a crash. Under times='int96' a datetime column may come "
            "back as datetime64[ns] (INT96 is nanoseconds by definition); instants are compared.",
}
BUDGET = {"quick": {"shards": 8, "examples": 450, "wall": 100},
          "thorough": {"shards": 16, "examples": 12000, "wall": 1500}}


def strategy(tier):
    from hypothesis import strategies as st

    @st.composite
    def s(draw):
        case = draw(frames.frame_and_options(thorough=(tier == "thorough")))
        if case["frame"]["index"] is None and case["opts"]["write_index"] is not True and draw(st.integers(0, 5)) == 0:
            # the automatic index of a frame that was sliced: a RangeIndex that does not start at 0 / has a step
            case["frame"]["range"] = [draw(st.sampled_from([0, 1, 10, -3])), draw(st.sampled_from([1, 2, 3, -1, 7]))]
        return case
    return s()


def _path(d, opts):
    return os.path.join(d, "t.parq" if opts.get("file_scheme", "simple") == "simple" else "ds")


def write_case(case, d, add_rid=False):
    """Write the case; returns (df, path, error-or-None).  add_rid: append a unique
    int64 row-id column `_rid` (original row position) so that results of filtered or
    regrouped reads can be attributed to input rows."""
    import fastparquet
    fr, opts = case["frame"], case["opts"]
    df = cases.build_frame(fr)
    if add_rid:
        import numpy as np
        df["_rid"] = np.arange(fr["n"], dtype="int64")
    if case.get("row_labels") and fr.get("index") is None and opts.get("write_index") is False:
        # a frame whose (unwritten) row labels repeat, e.g. the result of a concat
        lab = case["row_labels"]
        df.index = [lab[i % len(lab)] for i in range(len(df))]
    path = _path(d, opts)
    kw = cases.write_kwargs(opts)
    if case.get("partition_on"):
        kw["partition_on"] = list(case["partition_on"])
    try:
        with cases.writer_globals(opts):
            fastparquet.write(path, df, **kw)
    except Exception as e:
        return df, path, e
    return df, path, None


def features(case):
    fr, opts = case["frame"], case["opts"]
    n = fr["n"]
    labs = []
    kinds = sorted({c["kind"] for c in fr["cols"]})
    labs += ["kind:" + k for k in kinds]
    labs.append("scheme:" + opts.get("file_scheme", "simple"))
    labs.append("dpv:%d" % opts.get("dpv", 1))
    labs.append("rows:%s" % ("0" if n == 0 else "1" if n == 1 else "2-9" if n < 10 else "10-65" if n <= 65 else ">65"))
    pats = sorted({(c.get("null") or {}).get("pat", "none") for c in fr["cols"]})
    labs += ["null:" + p for p in pats]
    codecs = sorted({cases.codec_family(opts, c["name"]) for c in fr["cols"]})
    labs += ["codec:" + c for c in codecs]
    if opts.get("page_size"):
        labs.append("small_pages")
    if fr.get("index"):
        labs.append("index")
    labs.append("times:" + opts.get("times", "int64"))
    return labs


def n_row_groups(n, rgo):
    if n == 0:
        return 0
    if rgo is None:
        return 1
    if isinstance(rgo, int):
        if not rgo:
            return 1
        nparts = max((n - 1) // rgo + 1, 1)
        chunk = max(min((n - 1) // nparts + 1, n), 1)
        return len(range(0, n, chunk))
    return sum(1 for i, s in enumerate(rgo) if (rgo[i + 1] if i + 1 < len(rgo) else n) > s)


def nontrivial(case):
    fr, opts = case["frame"], case["opts"]
    n = fr["n"]
    if n < 1:
        return False
    anynull = any(cases.has_missing(c, n) for c in fr["cols"])
    return bool(anynull or n_row_groups(n, opts.get("rgo")) >= 2 or opts.get("page_size")
                or any(cases.codec_family(opts, c["name"]) != "none" for c in fr["cols"])
                or opts.get("dpv") == 2 or len({c["kind"] for c in fr["cols"]}) >= 2
                or fr.get("index") is not None)


def compare_frame(fr, opts, out):
    """None or (signature-part, detail)."""
    n = fr["n"]
    cols = fr["cols"]
    names = [c["name"] for c in cols]
    ic = fr.get("index")
    wi = opts.get("write_index")
    index_written = (wi is True) or (wi is None and ic is not None)
    got_names = [str(c) for c in out.columns]
    if got_names != names:
        return ("names", "columns %r != %r" % (got_names, names))
    if len(out) != n:
        return ("rowcount", "rows %d != %d" % (len(out), n))
    for c in cols:
        r = table.compare_column(c, n, out[c["name"]], ns_ok=(opts.get("times") == "int96"))
        if r:
            return ("%s|%s" % (r[0], col_tag(c)), "column %r: %s" % (c["name"], r[1]))
    # index
    if index_written and ic is not None:
        if isinstance(out.index, pd_RangeIndex()):
            return ("index_lost|" + col_tag(ic), "written index came back as RangeIndex")
        r = table.compare_column(ic, n, out.index, check_dtype=(ic["kind"] != "text"),
                                 ns_ok=(opts.get("times") == "int96"))
        if r:
            return ("index_%s|%s" % (r[0], col_tag(ic)), "index: %s" % (r[1],))
        want = ic["name"]
        if out.index.name != want and not (want is None and out.index.name in ("index", "level_0")):
            return ("index_name", "index name %r != %r" % (out.index.name, want))
    elif index_written and ic is None:
        # write_index=True on a RangeIndex: the positions 0..n-1 come back as an index
        got = [int(x) for x in list(out.index)]
        if got != list(range(n)):
            return ("index_value|range", "range index written explicitly came back as %r" % (got[:10],))
    else:
        got = list(out.index)
        want = list(range(n))
        if fr.get("range") and wi is None:
            want = [fr["range"][0] + i * fr["range"][1] for i in range(n)]
        if got != want:
            return ("index_regen", "expected regenerated RangeIndex %r, got %r" % (want[:10], got[:10]))
    return None


def pd_RangeIndex():
    import pandas as pd
    return pd.RangeIndex


def col_tag(c):
    k = c["kind"]
    if k in ("int", "float", "nullable", "pyobj"):
        return "%s:%s" % (k, c["sub"])
    if k == "text":
        return "text:%s" % c.get("sub", "object")
    if k == "datetime":
        return "datetime:%s:%s" % (c["unit"], "tz" if c.get("tz") else "naive")
    if k == "timedelta":
        return "timedelta:%s" % c["unit"]
    if k == "category":
        return "category:%s" % c["labels"]
    return k


def run_case(case):
    import fastparquet
    fr, opts = case["frame"], case["opts"]
    labels = features(case)
    n0 = "|n0" if fr["n"] == 0 else ""
    with common.Scratch() as d:
        df, path, err = write_case(case, d)
        if isinstance(err, AttributeError):
            # a refusal is a ValueError / TypeError / NotImplementedError; this is the library tripping over a valid request
            return viol("write_crashed|%s|dpv%d" % (exc_sig(err), opts.get("dpv", 1)), exc_detail(err), labels=labels)
        if err is not None:
            return ok(False, labels + ["write_raised", "write_raised:" + type(err).__name__])
        try:
            out = fastparquet.ParquetFile(path).to_pandas()
        except Exception as e:
            return viol("read_raised|%s|dpv%d%s" % (exc_sig(e), opts.get("dpv", 1), n0), exc_detail(e), labels=labels)
        r = compare_frame(fr, opts, out)
        if r:
            return viol("diff|%s|dpv%d%s" % (r[0], opts.get("dpv", 1), n0), r[1], labels=labels)
    return ok(nontrivial(case), labels)


def shrink_moves(case):
    return shrinkers.frame_opts_moves(case)


def abbreviate(case):
    return shrinkers.abbreviate_frame_case(case)
