"""C08 - directory-partitioned write/read preserves every row and every partition value."""
import collections
import os

import numpy as np
import pandas as pd

from vf import cases, common, shrinkers
from vf.cases import MISSING
from vf.gen import datasets
from vf.model import frames_eq, table
from vf.props import c01
from vf.runner import discard, exc_detail, exc_sig, ok, viol

ID = "C08"
LEVEL = "exploration"
RULE = ("Hypothesis draws frames with 1-3 partition columns (int/float/bool/datetime/text/category, small pools so keys "
        "collide, legal path-segment texts, numeric-looking text favoured, optional null keys) plus value columns of any "
        "C01 kind, row-group offsets, hive|drill. Oracle: directory tree <-> key combinations bijection with every part "
        "file holding exactly rows of its key; hive: multiset of (value columns + partition values by kind and value) "
        "equals the model restricted to non-null keys; drill: value multiset equal and dirN grouping consistent. "
        "Non-trivial: write succeeded, >= 2 distinct key combinations and >= 2 data files.")
ASSUMPTIONS = [
    "rows with a null partition key are dropped (documented)",
    "drill: two key texts that coerce to the same number/timestamp may share a value (documented limitation); "
    "detected with an independent parse",
    "value columns are compared by value only (their dtype fidelity is C01's business)",
]
MANIFEST = {
    "category": "exploration",
    "technique": "property-based testing: generated partitioned frames, model multiset comparison + directory-tree invariant",
    "text": "Generated search over partition column kinds/cardinalities/null keys x value kinds x row-group splits x "
            "hive/drill; compares the multiset of rows read back (partition values by kind and value) with the model and "
            "checks that every part file holds only rows of the key its directory names.",
    "note": "Trusted: pandas for building the frame; independent parse used only to recognise the documented drill "
            "coercion collision. Part files are read individually through ParquetFile to attribute rows to directories.",
}
BUDGET = {"quick": {"shards": 8, "examples": 260, "wall": 100},
          "thorough": {"shards": 16, "examples": 5000, "wall": 1500}}


def strategy(tier):
    from hypothesis import strategies as st
    # most cases hold enough rows for several key combinations and files
    return st.sampled_from([0, 3, 5, 5, 8]).flatmap(lambda m: datasets.partitioned(thorough=(tier == "thorough"), min_rows=m))


def key_text(col, v):
    """Canonical key of a partition cell (MISSING for null keys)."""
    return cases.canon_value(col, v)


def part_label_canon(col, x):
    """Canonical form of a partition value read back, by the kind the property demands."""
    k = col["kind"]
    try:
        if k == "int":
            if isinstance(x, (bool, np.bool_)) or not isinstance(x, (int, np.integer)):
                return ("!kind", type(x).__name__, repr(x))
            return int(x)
        if k == "float":
            if not isinstance(x, (float, np.floating)):
                return ("!kind", type(x).__name__, repr(x))
            return float(x).hex()
        if k == "bool":
            if not isinstance(x, (bool, np.bool_)):
                return ("!kind", type(x).__name__, repr(x))
            return bool(x)
        if k == "datetime":
            if not isinstance(x, (pd.Timestamp, np.datetime64)):
                return ("!kind", type(x).__name__, repr(x))
            ns = int(pd.Timestamp(x).as_unit("ns").value)
            return ns // cases.UNIT_NS[col["unit"]] if ns % cases.UNIT_NS[col["unit"]] == 0 else ("!ticks", ns)
        if not isinstance(x, str):
            return ("!kind", type(x).__name__, repr(x))
        return str(x)
    except Exception as e:
        return ("!exc", repr(e))


def value_cells(series):
    if getattr(series.dtype, "kind", "") == "M":
        series = series.dt.as_unit("ns")   # INT96 storage hands back nanoseconds: compare instants
    return frames_eq.canon_array(series)[1]


def model_rows(fr, pnames):
    """Rows of the frame with non-null keys: list of (key tuple, value tuple)."""
    n = fr["n"]
    cols = {c["name"]: c for c in fr["cols"]}
    vcols = [c for c in fr["cols"] if c["name"] not in pnames]
    keys = [cases.expected_column(cols[p], n) for p in pnames]
    vals = [expected_value_cells(c, n) for c in vcols]
    rows = []
    for i in range(n):
        key = tuple(k[i] for k in keys)
        if any(x is MISSING for x in key):
            continue
        rows.append((key, tuple(v[i] for v in vals)))
    return rows, [c["name"] for c in vcols]


def expected_value_cells(col, n):
    """Expected cells in the frames_eq canonical domain (what canon_array gives for a correct read)."""
    arr = cases.build_array(col, n)
    return value_cells(pd.Series(arr)) if col["kind"] != "json" else \
        [MISSING if v is MISSING else ("j", __import__("json").dumps(v, sort_keys=True)) for v in cases.raw_values(col, n)]


def _collides(a, b):
    def parse(t):
        if t in ("True", "False"):       # (val_to_num reads these two texts as booleans, and False == 0, True == 1)
            return t == "True"
        for f in (lambda x: int(x, 10), float, lambda x: pd.Timestamp(x).value, lambda x: pd.Timedelta(x).value):
            try:
                return f(t)
            except Exception:
                continue
        return t
    try:
        return parse(a) == parse(b)
    except Exception:
        return False


def run_case(case):
    import fastparquet
    fr, opts, pnames = case["frame"], case["opts"], list(case["partition_on"])
    scheme = opts["file_scheme"]
    cols = {c["name"]: c for c in fr["cols"]}
    labels = ["scheme:" + scheme, "nparts:%d" % len(pnames)] + ["pkind:" + cols[p]["kind"] for p in pnames]
    rows, vnames = model_rows(fr, pnames)
    if not vnames:
        return discard("no value column")
    by_key = collections.defaultdict(collections.Counter)
    for key, val in rows:
        by_key[key][val] += 1
    if any(cols[p]["kind"] == "text" and any(str(v)[:1] in "0123456789.-+" or str(v).lower() in ("true", "false", "nan", "inf", "nat", "none")
                                             for v in cols[p]["pool"]) for p in pnames):
        labels.append("numeric_looking_text")
    if any((cols[p].get("null") or {}).get("pat", "none") != "none" for p in pnames):
        labels.append("null_keys")
    with common.Scratch() as d:
        df, path, err = c01.write_case(case, d)
        if err is not None:
            return ok(False, labels + ["write_raised", "write_raised:" + type(err).__name__])
        # ---- directory tree
        files = []
        for root, _, fns in os.walk(path):
            for fn in fns:
                if fn.endswith(".parquet"):
                    files.append(os.path.relpath(os.path.join(root, fn), path))
        files.sort()
        seen_dirs = {}
        try:
            for rel in files:
                parts = rel.split(os.sep)[:-1]
                if len(parts) != len(pnames):
                    return viol("tree|depth|" + scheme, "file %r is not %d levels deep" % (rel, len(pnames)), labels=labels)
                if scheme == "hive":
                    for p, seg in zip(pnames, parts):
                        if not seg.startswith(p + "="):
                            return viol("tree|name|hive", "segment %r of %r is not %s=<value>" % (seg, rel, p), labels=labels)
                sub = fastparquet.ParquetFile(os.path.join(path, rel)).to_pandas()
                got = collections.Counter(zip(*[value_cells(sub[v]) for v in vnames])) if len(sub) else collections.Counter()
                cands = [k for k, cnt in by_key.items() if got and not (got - cnt)]
                dkey = tuple(parts)
                # all files of one directory must belong to one key, and hold only rows of that key
                if not got:
                    continue
                if not cands:
                    return viol("tree|foreign_rows|" + scheme, "file %r holds rows that belong to no single key" % rel,
                                labels=labels)
                prev = seen_dirs.get(dkey)
                cands = set(cands) if prev is None else (set(cands) & prev)
                if not cands:
                    return viol("tree|mixed_dir|" + scheme, "directory %r holds rows of different keys" % (dkey,), labels=labels)
                seen_dirs[dkey] = cands
        except Exception as e:
            return viol("partfile_read|%s|%s" % (exc_sig(e), scheme), exc_detail(e), labels=labels)
        # text keys: the directory carries the key text itself
        for dkey in seen_dirs:
            for p, seg in zip(pnames, dkey):
                c = cols[p]
                if c["kind"] in ("text", "category"):
                    txt = seg.split("=", 1)[1] if scheme == "hive" else seg
                    if not any(k[pnames.index(p)] == txt for k in seen_dirs[dkey]):
                        return viol("tree|keytext|" + scheme, "directory segment %r does not carry the key text of %r" % (seg, p),
                                    labels=labels)
        # ---- read back
        try:
            pf = fastparquet.ParquetFile(path)
            out = pf.to_pandas()
        except Exception as e:
            return viol("read_raised|%s|%s|%s" % (exc_sig(e), scheme, "+".join(sorted(cols[p]["kind"] for p in pnames))),
                        exc_detail(e), labels=labels)
        if len(out) != len(rows):
            return viol("rowcount|" + scheme, "rows %d != %d (model, non-null keys)" % (len(out), len(rows)), labels=labels)
        if not rows:
            # nothing was stored: no directory exists that could carry partition columns
            return ok(False, labels + ["empty"])
        missing = [v for v in vnames if v not in out.columns]
        if missing:
            return viol("names|" + scheme, "value columns %r missing from %r" % (missing, list(out.columns)), labels=labels)
        vcells = list(zip(*[value_cells(out[v]) for v in vnames])) if len(out) else []
        if scheme == "hive":
            for p in pnames:
                if p not in out.columns:
                    return viol("names|hive", "partition column %r missing from %r" % (p, list(out.columns)), labels=labels)
            pcells = []
            for p in pnames:
                s = out[p]
                vals = s.astype(object).tolist() if not isinstance(s.dtype, pd.CategoricalDtype) else \
                    [None if c < 0 else s.cat.categories[c] for c in s.cat.codes.tolist()]
                pcells.append([MISSING if v is None else part_label_canon(cols[p], v) for v in vals])
            got = collections.Counter(zip(zip(*pcells), vcells)) if len(out) else collections.Counter()
            exp = collections.Counter(rows)
            if got != exp:
                extra = list((got - exp).items())[:2]
                lost = list((exp - got).items())[:2]
                kinds = "+".join(sorted({cols[p]["kind"] for p in pnames}))
                aspect = "partvalue" if collections.Counter(v for _, v in got.elements()) == collections.Counter(
                    v for _, v in exp.elements()) else "rows"
                return viol("multiset|%s|hive|%s" % (aspect, kinds), "unexpected %r ; lost %r" % (extra, lost), labels=labels)
        else:
            dirs = ["dir%d" % i for i in range(len(pnames))]
            for dn in dirs:
                if dn not in out.columns:
                    return viol("names|drill", "positional column %r missing from %r" % (dn, list(out.columns)), labels=labels)
            if collections.Counter(vcells) != collections.Counter(v for _, v in rows):
                return viol("multiset|rows|drill", "value-column multiset differs", labels=labels)
            # grouping: rows of one key share one dirN value; different keys differ unless they collide by coercion
            exp_by_val = collections.defaultdict(set)
            for key, val in rows:
                exp_by_val[val].add(key)
            dcells = [out[dn].astype(object).tolist() for dn in dirs]
            seen = {}
            for i, val in enumerate(vcells):
                dval = tuple(repr(dc[i]) for dc in dcells)
                keys = exp_by_val[val]
                if len(keys) == 1:
                    key = next(iter(keys))
                    for lvl in range(len(pnames)):
                        prev = seen.setdefault((lvl, dval[lvl]), key[lvl])
                        if prev != key[lvl]:
                            a, b = str(_disp(cols[pnames[lvl]], prev)), str(_disp(cols[pnames[lvl]], key[lvl]))
                            if not _collides(a, b):
                                return viol("drill|merged_keys", "keys %r and %r share %s=%s" % (a, b, dirs[lvl], dval[lvl]),
                                            labels=labels)
    nt = len(by_key) >= 2 and len(files) >= 2
    if len(files) >= 2 and c01.n_row_groups(fr["n"], opts.get("rgo")) >= 2:
        labels.append("multi_rg")
    return ok(nt, labels)


def _disp(col, k):
    return k


def shrink_moves(case):
    pn = set(case["partition_on"])
    for c in shrinkers.frame_opts_moves(case):
        names = {x["name"] for x in c["frame"]["cols"]}
        if not pn <= names:
            if len(case["partition_on"]) > 1:
                c = dict(c, partition_on=[p for p in case["partition_on"] if p in names])
                if not c["partition_on"]:
                    continue
            else:
                continue
        if c["opts"].get("file_scheme") == "simple":
            continue
        if len(names - set(c["partition_on"])) < 1:
            continue
        yield c


def abbreviate(case):
    return shrinkers.abbreviate_frame_case(case)
