"""C20 - concurrent reads and derived handles give the same results as sequential use."""
import copy
import io
import os
import pickle

import numpy as np
import pandas as pd
from hypothesis import strategies as st

from vf import common, sched
from vf.model import frames_eq
from vf.runner import discard, exc_detail, exc_sig, ok, viol

ID = "C20"
LEVEL = "exploration"
RULE = ("Thread programs over ONE shared ParquetFile handle of a small multi-row-group dataset: read-only operations from a catalogue "
        "(full read, column subset, filtered read, pf[i:j] + read of the derived handle, iter_row_groups, head, statistics, pickle, "
        "count, categorical read) and writer programs (make_part_file on distinct buffers with a shared FileMetaData/schema). "
        "Schedules are owned by a deterministic line-level scheduler (sys.settrace; exactly one thread runs between yield points): "
        "(a) EXHAUSTIVE single pre-emption - for every ordered pair (A, B) of the catalogue, A is stopped after each of its k = "
        "1..K_A line steps, B runs to completion, A resumes; (b) Hypothesis-drawn schedules with 2-3 pre-emptions over 2-4 threads; "
        "(c) free-running stress with sys.setswitchinterval(1e-6) and a start barrier, 2-16 threads (statistical supplement). "
        "Oracle: every operation's result equals the result of the same operation executed alone on a fresh handle (frames "
        "compared cell by cell, part-file bytes exactly), no operation raises, and the parent handle still answers a full read "
        "correctly afterwards. Non-trivial execution: a pre-emption that lands inside the other operation's code where one of the "
        "operations is a slice or a filtered read. Distinct = (operations, schedule point).")
ASSUMPTIONS = [
    "interleavings are explored at line granularity of the library's Python code under the GIL; races inside C extensions that release the GIL are outside what a Python-level scheduler owns",
    "the free-running part gives statistical cover only and never decides alone",
]
MANIFEST = {
    "category": "exploration",
    "technique": "deterministic-schedule concurrency testing: exhaustive single pre-emption over ordered operation pairs, symmetric two-pre-emption exploration of same-code pairs and generated multi-pre-emption schedules under an owned line-level scheduler, differential against sequential results",
    "text": "All single pre-emptions of every ordered pair of catalogue operations on a shared handle are enumerated, plus two "
            "pre-emptions around the same program point of two threads running the same code (readers and part-file writers), generated "
            "2-3 pre-emption schedules and a free-running stress; each concurrent result must equal the sequential result and no call may fail.",
    "note": "Trusted: the scheduler (vf/sched.py) serialises threads correctly; CPython executes the traced line events in program order.",
}
BUDGET = {"quick": {"shards": 16, "examples": 12, "wall": 260},
          "thorough": {"shards": 16, "examples": 600, "wall": 1700}}

CATALOGUE = [
    {"op": "full"},
    {"op": "columns", "cols": ["f", "x"]},
    {"op": "filter", "cond": ["x", ">", 5]},
    {"op": "slice", "i": 1, "j": 3},
    {"op": "slice", "i": 0, "j": 1},
    {"op": "iter"},
    {"op": "head", "n": 5},
    {"op": "statistics"},
    {"op": "pickle"},
    {"op": "count_filter", "cond": ["x", "<=", 3]},
    {"op": "cat_read"},
    {"op": "filter", "cond": ["u", ">=", 9223372036854775808 + 4]},      # unsigned column above the signed range (converted statistics)
    {"op": "filter", "cond": ["u", ">", 9223372036854775808 + 3]},
    {"op": "filter_ts", "cond": ["d", ">=", 5]},                          # timestamp column (converted statistics)
    {"op": "count_filter", "cond": ["u", "<", 9223372036854775808 + 8]},
    {"op": "statistics_prop"},                                             # the cached property of the handle
    {"op": "slice_statistics", "i": 1, "j": 3},                           # ... and of a handle derived from it
    {"op": "plain_read"},                                                  # the categorical column read as plain values
    {"op": "sorted_filtered", "cond": ["x", ">", 5]},                      # derived list, narrowed by a filter
]
QUICK_PAIRS = [(0, 3), (3, 0), (2, 3), (3, 2), (7, 3), (3, 7), (8, 3), (10, 3), (11, 12), (12, 11), (14, 13), (13, 12), (15, 16), (16, 15),
               (0, 10), (10, 1), (17, 10), (10, 17), (18, 15), (15, 18)]   # reads of one handle with different `categories=` / `columns=` selections
SYM_DELTAS = [0, 1, 2, 3, 5]
CHUNK = 150
MAX_STEPS = 6000


def dataset(variant):
    n = 12
    x = np.arange(n, dtype="int64")
    f = np.array([0.5 * i if i % 5 else np.nan for i in range(n)], dtype="float64")
    t = np.array(["t%d" % (i % 4) for i in range(n)], dtype=object)
    c = pd.Categorical(["a", "b", "c"] * 4, categories=["c", "a", "b"])
    u = (np.arange(n, dtype="uint64") + np.uint64(2 ** 63))
    dts = (np.arange(n, dtype="int64") * 86400 * 10 ** 9).view("M8[ns]")
    df = pd.DataFrame({"x": x, "f": f, "t": pd.Series(t, dtype=object), "c": c, "u": u, "d": dts})
    kw = {"row_group_offsets": 4, "stats": True}
    if variant == "hive":
        kw["file_scheme"] = "hive"
    elif variant == "snappy":
        kw["compression"] = "SNAPPY"
    return df, kw


def run_op(op, pf):
    """Execute one catalogue operation on the (shared) handle; returns a comparable value."""
    k = op["op"]
    if k == "full":
        return pf.to_pandas()
    if k == "columns":
        return pf.to_pandas(columns=list(op["cols"]))
    if k == "filter":
        return pf.to_pandas(filters=[tuple(op["cond"])])
    if k == "filter_ts":
        col, o, days = op["cond"]
        return pf.to_pandas(filters=[(col, o, np.datetime64(days * 86400 * 10 ** 9, "ns"))])
    if k == "slice":
        return pf[op["i"]:op["j"]].to_pandas()
    if k == "iter":
        return list(pf.iter_row_groups())
    if k == "head":
        return pf.head(op["n"])
    if k == "statistics":
        from fastparquet import api
        return api.statistics(pf)
    if k == "statistics_prop":
        return pf.statistics
    if k == "slice_statistics":
        return pf[op["i"]:op["j"]].statistics
    if k == "pickle":
        return pickle.loads(pickle.dumps(pf)).to_pandas()
    if k == "count_filter":
        return pf.count(filters=[tuple(op["cond"])])
    if k == "cat_read":
        return pf.to_pandas(columns=["c", "x"], categories=["c"])
    if k == "sorted_filtered":
        from fastparquet import api
        return api.sorted_partitioned_columns(pf, filters=[tuple(op["cond"])])
    if k == "plain_read":
        return pf.to_pandas(columns=["c", "x"], categories=[])
    raise ValueError(k)


def same(a, b):
    """None when equal else detail."""
    if isinstance(a, pd.DataFrame) and isinstance(b, pd.DataFrame):
        r = frames_eq.frames_equal(a, b)
        return None if r is None else "%s: %s" % r
    if isinstance(a, list) and isinstance(b, list):
        if len(a) != len(b):
            return "list length %d vs %d" % (len(a), len(b))
        for i, (x, y) in enumerate(zip(a, b)):
            r = same(x, y)
            if r:
                return "item %d: %s" % (i, r)
        return None
    if isinstance(a, dict) and isinstance(b, dict):
        return None if repr(a) == repr(b) else "dict %s vs %s" % (repr(a)[:200], repr(b)[:200])
    if isinstance(a, (bytes, bytearray)) and isinstance(b, (bytes, bytearray)):
        return None if bytes(a) == bytes(b) else "bytes differ (%d vs %d)" % (len(a), len(b))
    try:
        return None if a == b and type(a) is type(b) else "%r vs %r" % (a, b)
    except Exception:
        return "%r vs %r" % (a, b)


class _Buf(io.BytesIO):
    def close(self):
        self.final = self.getvalue()
        super().close()


def writer_funcs(nthreads, symmetric=False):
    """Writer programs: make_part_file on distinct buffers with a shared FileMetaData / schema.
    symmetric: identical options in every thread (same code path, same number of line steps)."""
    from fastparquet import writer
    dfs = [pd.DataFrame({"x": np.arange(i, i + 6, dtype="int64"), "t": pd.Series(["s%d" % j for j in range(6)], dtype=object),
                         "c": pd.Categorical(["u", "v", "u", "v", "u", "u"])}) for i in range(nthreads)]
    fmd = writer.make_metadata(dfs[0], has_nulls=True, object_encoding="infer")

    def make(i):
        def f():
            b = _Buf()
            writer.make_part_file(b, dfs[i], fmd.schema, compression="SNAPPY" if (i % 2 and not symmetric) else None, fmd=fmd)
            return b.final
        return f
    return [make(i) for i in range(nthreads)]


def enumerate_cases(tier):
    pairs = QUICK_PAIRS if tier == "quick" else [(a, b) for a in range(len(CATALOGUE)) for b in range(len(CATALOGUE)) if a != b]
    for a, b in pairs:
        for k0 in range(1, MAX_STEPS, CHUNK):
            # every line step of A
            yield {"kind": "single", "a": a, "b": b, "k0": k0, "k1": k0 + CHUNK - 1, "ds": "simple", "step": 1}
    for k0 in range(1, 1500, CHUNK):
        yield {"kind": "single_writer", "k0": k0, "k1": k0 + CHUNK - 1}
    # two pre-emptions around the same program point of two threads running the same code: A stops after k steps, B runs
    # to (about) the same point, A resumes - the shape of check-then-act and save/restore races
    step = 2 if tier == "quick" else 1
    for k0 in range(1, 1500, CHUNK // 3):
        yield {"kind": "sym_writer", "k0": k0, "k1": k0 + CHUNK // 3 - 1, "step": step}
    for a in ((3, 7, 2, 11) if tier == "quick" else range(len(CATALOGUE))):
        for k0 in range(1, MAX_STEPS, CHUNK // 3):
            yield {"kind": "sym", "a": a, "k0": k0, "k1": k0 + CHUNK // 3 - 1, "step": step * 2, "ds": "simple"}


@st.composite
def strategy_(draw, thorough):
    kind = draw(st.sampled_from(["points", "points", "points", "free", "writers"]))
    nthreads = draw(st.integers(2, 4)) if kind == "points" else draw(st.sampled_from([2, 4, 8, 16]))
    ops = [draw(st.integers(0, len(CATALOGUE) - 1)) for _ in range(nthreads)]
    if 3 not in ops and 4 not in ops and draw(st.booleans()):
        ops[draw(st.integers(0, nthreads - 1))] = 3
    case = {"kind": kind, "ops": ops, "ds": draw(st.sampled_from(["simple", "simple", "hive", "snappy"]))}
    if kind == "points":
        npre = draw(st.integers(2, 3))
        case["points"] = [[draw(st.integers(1, 1200)), draw(st.integers(0, nthreads - 1))] for _ in range(npre)]
        case["first"] = draw(st.integers(0, nthreads - 1))
    elif kind == "writers":
        case["nthreads"] = draw(st.sampled_from([2, 3, 4]))
        case["points"] = [[draw(st.integers(1, 600)), draw(st.integers(0, case["nthreads"] - 1))] for _ in range(draw(st.integers(1, 3)))]
    else:
        case["repeat"] = 3 if not thorough else 10
    return case


def strategy(tier):
    return strategy_(tier == "thorough")


def _judge(ops, results, errors, baselines, pf, full, labels, how):
    for i, e in enumerate(errors):
        if e is not None:
            others = "+".join(sorted({CATALOGUE[o]["op"] for j, o in enumerate(ops) if j != i}))
            return viol("raised|%s|%s|with:%s" % (CATALOGUE[ops[i]]["op"], exc_sig(e), others),
                        "%s: operation %r raised while running concurrently with %s: %s" % (how, CATALOGUE[ops[i]], others, exc_detail(e)), labels=labels)
    for i, r in enumerate(results):
        d = same(r, baselines[ops[i]])
        if d:
            others = "+".join(sorted({CATALOGUE[o]["op"] for j, o in enumerate(ops) if j != i}))
            return viol("differs|%s|with:%s" % (CATALOGUE[ops[i]]["op"], others),
                        "%s: result of %r differs from its sequential result: %s" % (how, CATALOGUE[ops[i]], d), labels=labels)
    try:
        after = pf.to_pandas()
    except Exception as e:
        return viol("parent_broken|" + exc_sig(e), "%s: the shared handle fails afterwards: %s" % (how, exc_detail(e)), labels=labels)
    d = same(after, full)
    if d:
        return viol("parent_differs", "%s: the shared handle reads differently afterwards: %s" % (how, d), labels=labels)
    return None


def run_case(case):
    import fastparquet
    kind = case["kind"]
    labels = ["kind:" + kind]
    if kind in ("single_writer", "writers", "sym_writer"):
        return _writers(case, labels)
    with common.Scratch() as d:
        df, kw = dataset(case.get("ds", "simple"))
        path = os.path.join(d, "t.parq" if kw.get("file_scheme") != "hive" else "ds")
        fastparquet.write(path, df, **kw)
        needed = sorted({case["a"], case["b"]} if kind == "single" else {case["a"]} if kind == "sym" else set(case["ops"]))
        baselines = {}
        for o in needed:
            baselines[o] = run_op(CATALOGUE[o], fastparquet.ParquetFile(path))
        full = fastparquet.ParquetFile(path).to_pandas()
        sub_nt, n_exec = [], 0
        if kind == "single":
            a, b = case["a"], case["b"]
            labels += ["A:" + CATALOGUE[a]["op"], "B:" + CATALOGUE[b]["op"]]
            pf = fastparquet.ParquetFile(path)
            K, _, err = sched.count_steps(lambda: run_op(CATALOGUE[a], pf))
            if err is not None:
                return viol("raised_alone|" + CATALOGUE[a]["op"], exc_detail(err), labels=labels)
            for k in range(case["k0"], min(case["k1"], K) + 1, case.get("step", 1)):
                pf = fastparquet.ParquetFile(path)
                s = sched.Scheduler([lambda: run_op(CATALOGUE[a], pf), lambda: run_op(CATALOGUE[b], pf)], [(k, 1)], first=0)
                try:
                    results, errors = s.run()
                except sched.Deadlock as e:
                    return viol("deadlock|single", "k=%d: %s" % (k, e), labels=labels, k=k)
                n_exec += 1
                r = _judge([a, b], results, errors, baselines, pf, full, labels, "A stopped after %d of %d line steps" % (k, K))
                if r:
                    r["k"] = k
                    return r
                if s.preemptions_done and any(o in ("slice", "filter", "filter_ts", "count_filter") for o in (CATALOGUE[a]["op"], CATALOGUE[b]["op"])):
                    sub_nt.append(str(k))
            labels.append("K_A:%s" % ("<500" if K < 500 else "<1500" if K < 1500 else "<3000" if K < 3000 else ">=3000"))
        elif kind == "sym":
            a = case["a"]
            labels += ["A:" + CATALOGUE[a]["op"], "B:" + CATALOGUE[a]["op"]]
            pf = fastparquet.ParquetFile(path)
            K, _, err = sched.count_steps(lambda: run_op(CATALOGUE[a], pf))
            if err is not None:
                return viol("raised_alone|" + CATALOGUE[a]["op"], exc_detail(err), labels=labels)
            for k in range(case["k0"], min(case["k1"], K) + 1, case.get("step", 1)):
                for dlt in SYM_DELTAS:
                    pf = fastparquet.ParquetFile(path)
                    plan = [(k, 1), (k + dlt, 0)]
                    s = sched.Scheduler([lambda: run_op(CATALOGUE[a], pf), lambda: run_op(CATALOGUE[a], pf)], plan, first=0)
                    try:
                        results, errors = s.run()
                    except sched.Deadlock as e:
                        return viol("deadlock|sym", "plan=%r: %s" % (plan, e), labels=labels)
                    n_exec += 1
                    r = _judge([a, a], results, errors, baselines, pf, full, labels, "schedule %r of %d line steps" % (plan, K))
                    if r:
                        return r
                    if s.preemptions_done >= 2:
                        sub_nt.append("%d+%d" % (k, dlt))
        elif kind == "points":
            ops = case["ops"]
            pf = fastparquet.ParquetFile(path)
            funcs = [(lambda o=o: run_op(CATALOGUE[o], pf)) for o in ops]
            s = sched.Scheduler(funcs, [tuple(p) for p in case["points"]], first=case.get("first", 0) % len(ops))
            try:
                results, errors = s.run()
            except sched.Deadlock as e:
                return viol("deadlock|points", str(e), labels=labels)
            n_exec = 1
            r = _judge(ops, results, errors, baselines, pf, full, labels, "schedule %r" % (case["points"],))
            if r:
                return r
            if s.preemptions_done and any(CATALOGUE[o]["op"] in ("slice", "filter", "filter_ts", "count_filter") for o in ops):
                sub_nt.append("p%d" % s.preemptions_done)
            labels.append("preemptions:%d" % s.preemptions_done)
        else:
            ops = case["ops"]
            for rep in range(case.get("repeat", 3)):
                pf = fastparquet.ParquetFile(path)
                funcs = [(lambda o=o: run_op(CATALOGUE[o], pf)) for o in ops]
                results, errors = sched.free_run(funcs)
                n_exec += 1
                r = _judge(ops, results, errors, baselines, pf, full, labels, "free-running, %d threads" % len(ops))
                if r:
                    return r
            labels.append("threads:%d" % len(ops))
    out = ok(bool(sub_nt), labels)
    out["sub_evals"] = max(1, n_exec)
    out["sub_nt"] = sub_nt
    return out


def _writers(case, labels):
    n = case.get("nthreads", 2)
    sym = case["kind"] == "sym_writer"
    base = [f() for f in writer_funcs(n, sym)]
    n_exec, sub_nt = 0, []
    if sym:
        K, _, err = sched.count_steps(writer_funcs(n, True)[0])
        if err is not None:
            return viol("raised_alone|part", exc_detail(err), labels=labels)
        plans = [[(k, 1), (k + dlt, 0)] for k in range(case["k0"], min(case["k1"], K) + 1, case.get("step", 1)) for dlt in SYM_DELTAS]
    elif case["kind"] == "single_writer":
        K, _, err = sched.count_steps(writer_funcs(n)[0])
        if err is not None:
            return viol("raised_alone|part", exc_detail(err), labels=labels)
        ks = range(case["k0"], min(case["k1"], K) + 1)
        plans = [[(k, 1)] for k in ks]
    else:
        plans = [[tuple(p) for p in case["points"]]]
    for plan in plans:
        funcs = writer_funcs(n, sym)
        s = sched.Scheduler(funcs, plan, first=0)
        try:
            results, errors = s.run()
        except sched.Deadlock as e:
            return viol("deadlock|writers", str(e), labels=labels)
        n_exec += 1
        for i, e in enumerate(errors):
            if e is not None:
                return viol("raised|part|" + exc_sig(e), "schedule %r: make_part_file raised: %s" % (plan, exc_detail(e)), labels=labels)
        for i, r in enumerate(results):
            if r != base[i]:
                return viol("differs|part", "schedule %r: part file %d differs from its sequential bytes" % (plan, i), labels=labels)
        if s.preemptions_done >= (2 if sym else 1):
            sub_nt.append(repr(plan))
    out = ok(bool(sub_nt), labels)
    out["sub_evals"] = max(1, n_exec)
    out["sub_nt"] = sub_nt
    return out


def shrink_moves(case):
    if case["kind"] == "single" and "k" in case:
        return
    if case["kind"] == "single":
        # narrow the chunk
        k0, k1 = case["k0"], case["k1"]
        if k1 > k0:
            mid = (k0 + k1) // 2
            yield dict(case, k1=mid)
            yield dict(case, k0=mid + 1)
        return
    if case["kind"] == "points":
        pts = case["points"]
        for i in range(len(pts)):
            if len(pts) > 1:
                yield dict(case, points=pts[:i] + pts[i + 1:])
        for i, (st_, nx) in enumerate(pts):
            for s2 in (st_ // 2, st_ - 1):
                if 1 <= s2 < st_:
                    yield dict(case, points=pts[:i] + [[s2, nx]] + pts[i + 1:])
        if len(case["ops"]) > 2:
            for i in range(len(case["ops"])):
                ops = case["ops"][:i] + case["ops"][i + 1:]
                yield dict(case, ops=ops, points=[[s, min(nx, len(ops) - 1)] for s, nx in pts], first=min(case.get("first", 0), len(ops) - 1))
    if case.get("ds") != "simple":
        yield dict(case, ds="simple")


def abbreviate(case):
    c = dict(case)
    if "a" in c:
        c["A"], c["B"] = CATALOGUE[c["a"]], CATALOGUE[c["b"]]
    if "ops" in c:
        c["operations"] = [CATALOGUE[o] for o in c["ops"]]
    return c
