"""C11 - primitive codecs agree with the specification on their whole bounded domain."""
import itertools
import struct

import numpy as np

from vf.runner import discard, exc_detail, exc_sig, ok, viol

ID = "C11"
LEVEL = "exploration"
EXHAUSTIVE = True
RULE = ("Exhaustive enumeration (no sampling) of the parameter lattice of every primitive codec, one case per (function, width, "
        "count, item size / block shape) with all value patterns and all output capacities inside it: read_bitpacked widths 1-32 x "
        "counts 8..72 x item size {1,4} x patterns {zeros, ones, alternating, ramp, three fixed fills} x capacity 0..count+1; "
        "read_bitpacked1 / read_plain_boolean / boolean packing of the writer for counts 0-70; read_rle widths 0-32 x run lengths "
        "0-70 x capacities; read_rle_bit_packed_hybrid over all sequences of <= 3 runs from a small alphabet at widths "
        "{1,2,3,5,7,8,9,12,16,17,24}; unsigned varints of every length 1-10 (2^(7k)-1, 2^(7k), 2^64-1) both ways; "
        "width_from_max_int; delta_binary_unpack for INT32 widths 0-28 and INT64 widths 0-28 x counts around multiples of the "
        "miniblock size x block shapes; unpack_byte_array / pack_byte_array lengths 0-300 x counts 0-40; encode_bitpacked / "
        "encode_rle_bp widths 1-32. Oracle: refpq.encodings (value-at-a-time implementations of the specification) in both "
        "directions; exact output length min(requested, capacity); guard bytes after the output unchanged. Every lattice point "
        "with count >= 8 and a non-constant pattern is non-trivial. Widths in recorded-finding regions (bit-packed >= 25, delta "
        ">= 29) are run as isolated probes.")
ASSUMPTIONS = [
    "refpq.encodings is the specification oracle (self-validated against the format's worked examples and third-party files)",
    "guard bytes detect overruns only in the un-sanitised build's nearby memory; the sanitised run (C12) is the authoritative memory-safety check",
    "item size 1 outputs are compared modulo 256 (that is what a 1-byte output can hold)",
]
MANIFEST = {
    "category": "exploration",
    "technique": "exhaustive enumeration of the bounded parameter lattice of each primitive codec against value-at-a-time specification implementations (both directions), with guard-byte overrun detection",
    "text": "Every point of the finite lattice (bit widths x counts x patterns x output capacities x block shapes) of each primitive "
            "decoder/encoder is executed and compared with the specification implementation; exhaustive over the stated lattice.",
    "note": "Trusted: refpq.encodings. Exhaustive means: over the lattice stated in the rule (quick tier: a stated sub-lattice), not over all byte strings.",
}
BUDGET = {"quick": {"shards": 16, "wall": 110}, "thorough": {"shards": 16, "wall": 1500}}
PROBE_ISOLATED = True
REPLAY_ISOLATED = True

GUARD = 0xAB


def _fills(width, count, tier):
    mx = (1 << width) - 1
    pats = {"zeros": [0] * count, "ones": [mx] * count, "alt": [(mx if i % 2 else 0) for i in range(count)],
            "ramp": [i & mx for i in range(count)]}
    seeds = (1,) if tier == "quick" else (1, 2, 3)
    for s in seeds:
        x = (s * 2654435761) & 0xFFFFFFFF
        vals = []
        for i in range(count):
            x = (x * 1103515245 + 12345) & 0x7FFFFFFF
            vals.append(((x << 13) ^ x) & mx)
        pats["fill%d" % s] = vals
    return pats


def _caps(count, tier):
    if tier == "quick":
        return sorted({0, 1, max(0, count - 1), count, count + 1, count // 2})
    return list(range(0, count + 2))


def enumerate_cases(tier):
    for width in range(1, 25):
        for count in range(8, 73, 8):
            for item in (1, 4):
                yield {"f": "read_bitpacked", "width": width, "count": count, "item": item, "tier": tier}
    for count in range(0, 71):
        yield {"f": "bool", "count": count, "tier": tier}
    for width in range(0, 33):
        for item in (1, 4):
            yield {"f": "read_rle", "width": width, "item": item, "tier": tier}
    for width in (1, 2, 3, 5, 7, 8, 9, 12, 16, 17, 24):
        for item in (1, 4):
            yield {"f": "hybrid", "width": width, "item": item, "tier": tier}
    yield {"f": "varint", "tier": tier}
    yield {"f": "width_from_max_int", "tier": tier}
    for is64 in (False, True):
        for width in range(0, 29):
            for shape in ((128, 4), (256, 8), (128, 1), (256, 2)):
                yield {"f": "delta", "is64": is64, "width": width, "shape": list(shape), "tier": tier}
        for shape in ((128, 4), (256, 8)):
            yield {"f": "delta", "is64": is64, "width": 3, "shape": list(shape), "single": True, "tier": tier}
        # a trend under the pattern: the per-block minimum delta is far from zero (timestamps seconds apart in ns, ...)
        steps = [-3, 2 ** 31 + 5, -(2 ** 31) - 7, 2 ** 40 + 1, -(2 ** 45)] if is64 else [-3, 2 ** 30 + 1, -(2 ** 30) - 1]
        for step in steps:
            for width in (0, 1, 7, 8, 13, 16, 24, 28):
                for shape in ((128, 4), (256, 8)):
                    yield {"f": "delta", "is64": is64, "width": width, "shape": list(shape), "step": step, "tier": tier}
    for n in range(0, 41, 1 if tier == "thorough" else 5):
        yield {"f": "byte_array", "n": n, "tier": tier}
    for width in range(1, 25):
        yield {"f": "encode", "width": width, "tier": tier}


class Fail(Exception):
    def __init__(self, sig, detail):
        self.sig, self.detail = sig, detail


def _out(cap, item):
    arr = np.full((cap + 16) * item, GUARD, dtype=np.uint8)
    return arr, arr[: cap * item] if cap else arr[:0]


def _guard_ok(arr, cap, item):
    return bool((arr[cap * item:] == GUARD).all())


def _values(arr, n, item):
    if item == 4:
        return arr[: n * 4].view("<i4").astype(np.int64).tolist()
    return arr[:n].astype(np.int64).tolist()


def _check_decoder(name, call, expected, count, cap, item, ctx):
    """Run a decoder into an output of capacity `cap`; must yield min(count, cap) spec values and leave the guard alone."""
    from fastparquet import cencoding as ce
    arr, view = _out(cap, item)
    if cap == 0:
        # a zero-length output cannot be wrapped by NumpyIO (it takes the address of element 0): the smallest real capacity is 1
        return 0
    o = ce.NumpyIO(view)
    try:
        call(o)
    except Exception as e:
        raise Fail("%s|raised|%s" % (name, exc_sig(e)), "%s: %s" % (ctx, exc_detail(e)))
    n = min(count, cap)
    if not _guard_ok(arr, cap, item):
        raise Fail("%s|overrun|cap%s" % (name, "<count" if cap < count else ">=count"), "%s: bytes after an output of capacity %d were overwritten" % (ctx, cap))
    wrote = o.tell()
    if wrote != n * item:
        raise Fail("%s|length|cap%s" % (name, "<count" if cap < count else ">=count"), "%s: produced %d bytes, expected %d values x %d" % (ctx, wrote, n, item))
    got = _values(arr, n, item)
    exp = [(v & 0xFF) if item == 1 else _s32(v) for v in expected[:n]]
    if got != exp:
        k = next(i for i in range(n) if got[i] != exp[i])
        raise Fail("%s|value" % name, "%s: value %d is %d, specification says %d" % (ctx, k, got[k], exp[k]))
    return 1


def _s32(v):
    v &= 0xFFFFFFFF
    return v - (1 << 32) if v & 0x80000000 else v


def run_case(case):
    from fastparquet import cencoding as ce
    tier = case.get("tier", "quick")
    f = case["f"]
    n_exec = 0
    nt = []
    try:
        if f == "read_bitpacked":
            n_exec, nt = _bitpacked(case, tier)
        elif f == "bool":
            n_exec, nt = _bool(case, tier)
        elif f == "read_rle":
            n_exec, nt = _rle(case, tier)
        elif f == "hybrid":
            n_exec, nt = _hybrid(case, tier)
        elif f == "varint":
            n_exec, nt = _varint(case)
        elif f == "width_from_max_int":
            n_exec, nt = _wfmi(case)
        elif f == "delta":
            n_exec, nt = _delta(case, tier)
        elif f == "byte_array":
            n_exec, nt = _byte_array(case, tier)
        elif f == "encode":
            n_exec, nt = _encode(case, tier)
        else:
            raise ValueError(f)
    except Fail as e:
        return viol(e.sig, e.detail, labels=["f:" + f])
    out = ok(bool(nt), ["f:" + f])
    out["sub_evals"] = max(1, n_exec)
    out["sub_nt"] = nt
    return out


def _bitpacked(case, tier):
    from fastparquet import cencoding as ce
    from vf.refpq import encodings as enc
    width, count, item = case["width"], case["count"], case["item"]
    n_exec, nt = 0, []
    for pname, vals in _fills(width, count, tier).items():
        body = enc.encode_hybrid(vals, width, runs=[["bp", count // 8]])
        hdr, pos = _uvarint(body, 0)
        assert hdr == ((count // 8) << 1 | 1)
        raw = np.frombuffer(body[pos:] + b"\x00" * 8, dtype=np.uint8).copy()
        spec, _ = enc.decode_hybrid(body, 0, len(body), width, count)
        assert list(spec) == vals
        for cap in _caps(count, tier):
            ctx = "read_bitpacked(width=%d, count=%d, itemsize=%d, pattern=%s, capacity=%d)" % (width, count, item, pname, cap)
            fo = ce.NumpyIO(raw)
            n_exec += _check_decoder("read_bitpacked", lambda o: ce.read_bitpacked(fo, hdr, width, o, item), vals, count, cap, item, ctx)
            if cap and fo.tell() != (count // 8) * width:
                raise Fail("read_bitpacked|consumed", "%s: consumed %d input bytes, the run has %d" % (ctx, fo.tell(), (count // 8) * width))
            if pname not in ("zeros", "ones"):
                nt.append("%s:%d" % (pname, cap))
    return n_exec, nt


def _uvarint(buf, pos):
    from vf.refpq import compact
    return compact.read_uvarint(buf, pos)


def _bool(case, tier):
    from fastparquet import cencoding as ce, encoding as fenc, writer as fw, parquet_thrift
    from vf.refpq import encodings as enc
    import pandas as pd
    count = case["count"]
    n_exec, nt = 0, []
    for pname, vals in _fills(1, count, tier).items():
        packed = bytes(enc.pack_bits([int(v) for v in vals], 1))
        raw = np.frombuffer(packed + b"\x00" * 8, dtype=np.uint8).copy()
        for cap in _caps(count, tier):
            ctx = "read_bitpacked1(count=%d, pattern=%s, capacity=%d)" % (count, pname, cap)
            fo = ce.NumpyIO(raw)
            n_exec += _check_decoder("read_bitpacked1", lambda o: ce.read_bitpacked1(fo, count, o), vals, count, cap, 1, ctx)
            if pname not in ("zeros", "ones") and count >= 8:
                nt.append("%s:%d" % (pname, cap))
        # read_plain_boolean (reader side) and the writer's own packing
        if count:
            got = fenc.read_plain_boolean(bytes(packed), count)
            n_exec += 1
            if [int(x) for x in got.tolist()] != vals:
                raise Fail("read_plain_boolean|value", "read_plain_boolean(count=%d, pattern=%s) differs from the specification" % (count, pname))
            se = parquet_thrift.SchemaElement(type=parquet_thrift.Type.BOOLEAN)
            out = fw.encode_plain(pd.Series(np.array(vals, dtype=bool)), se)
            n_exec += 1
            back = enc.unpack_bits(bytes(out), 0, 1, count)
            if [int(x) for x in back] != vals:
                raise Fail("writer_bool_packing|value", "writer.encode_plain of %d booleans (pattern %s) does not decode to them" % (count, pname))
            if len(out) < (count + 7) // 8:
                raise Fail("writer_bool_packing|length", "writer.encode_plain of %d booleans gave %d bytes" % (count, len(out)))
    return n_exec, nt


def _rle(case, tier):
    from fastparquet import cencoding as ce
    width, item = case["width"], case["item"]
    n_exec, nt = 0, []
    nbytes = (width + 7) // 8
    mx = (1 << width) - 1
    lengths = range(0, 71) if tier == "thorough" else [0, 1, 2, 7, 8, 9, 16, 63, 64, 65, 70]
    for value in sorted({0, mx, mx // 2 + 1 if width else 0, 1 if width else 0}):
        for run in lengths:
            raw = np.frombuffer(value.to_bytes(max(nbytes, 1), "little")[:nbytes] + b"\x00" * 8, dtype=np.uint8).copy()
            header = run << 1
            for cap in _caps(run, tier):
                ctx = "read_rle(width=%d, run=%d, value=%d, itemsize=%d, capacity=%d)" % (width, run, value, item, cap)
                fo = ce.NumpyIO(raw)
                n_exec += _check_decoder("read_rle", lambda o: ce.read_rle(fo, header, width, o, item), [value] * run, run, cap, item, ctx)
                if cap and fo.tell() != nbytes:
                    raise Fail("read_rle|consumed", "%s: consumed %d input bytes, the value occupies %d" % (ctx, fo.tell(), nbytes))
                if run >= 8 and value not in (0,):
                    nt.append("%d:%d:%d" % (value, run, cap))
    return n_exec, nt


def _hybrid(case, tier):
    from fastparquet import cencoding as ce
    from vf.refpq import encodings as enc
    width, item = case["width"], case["item"]
    mx = (1 << width) - 1
    alphabet = [("rle", 1), ("rle", 3), ("rle", 9), ("bp", 1), ("bp", 2)] + ([("rle", 64), ("bp", 8)] if tier == "thorough" else [])
    n_exec, nt = 0, []
    for k in (1, 2, 3):
        for seq in itertools.product(alphabet, repeat=k):
            vals = []
            for j, (kind, ln) in enumerate(seq):
                if kind == "rle":
                    vals += [(mx - j) & mx] * ln
                else:
                    vals += [((i * 5 + j) & mx) for i in range(8 * ln)]
            body = enc.encode_hybrid(vals, width, runs=[[kd, ln] for kd, ln in seq])
            spec, endpos = enc.decode_hybrid(body, 0, len(body), width, len(vals))
            if list(spec) != vals:
                raise AssertionError("oracle hybrid round trip failed")
            raw = np.frombuffer(bytes(body) + b"\x00" * 8, dtype=np.uint8).copy()
            count = len(vals)
            for cap in sorted({1, count - 1, count, count + 1}):
                if cap < 1:
                    continue
                ctx = "read_rle_bit_packed_hybrid(width=%d, runs=%r, itemsize=%d, capacity=%d)" % (width, seq, item, cap)
                fo = ce.NumpyIO(raw)
                n_exec += _check_decoder("hybrid", lambda o: ce.read_rle_bit_packed_hybrid(fo, width, len(body), o, item), vals, count, cap, item, ctx)
                nt.append("%r:%d" % (seq, cap))
    return n_exec, nt


def _varint(case):
    from fastparquet import cencoding as ce
    from vf.refpq import compact
    n_exec, nt = 0, []
    vals = set()
    for k in range(0, 10):
        for d in (-1, 0, 1):
            v = (1 << (7 * k)) + d
            if 0 <= v < (1 << 64):
                vals.add(v)
    vals |= {(1 << 64) - 1, (1 << 63), (1 << 63) - 1, 0, 127, 128, 300}
    for v in sorted(vals):
        spec = compact.uvarint(v)
        raw = np.frombuffer(spec + b"\x00" * 4, dtype=np.uint8).copy()
        fo = ce.NumpyIO(raw)
        got = ce.read_unsigned_var_int(fo)
        n_exec += 1
        if got != v or fo.tell() != len(spec):
            raise Fail("read_unsigned_var_int|value", "decoding the varint of %d (%d bytes) gave %d, consumed %d" % (v, len(spec), got, fo.tell()))
        buf = np.full(16, GUARD, dtype=np.uint8)
        o = ce.NumpyIO(buf)
        ce.encode_unsigned_varint(v, o)
        n_exec += 1
        if bytes(buf[: o.tell()]) != spec:
            raise Fail("encode_unsigned_varint|value", "varint of %d encoded as %s, specification %s" % (v, bytes(buf[:o.tell()]).hex(), spec.hex()))
        nt.append(str(v))
    return n_exec, nt


def _wfmi(case):
    from fastparquet import cencoding as ce
    n_exec, nt = 0, []
    for k in range(0, 63):
        for v in {(1 << k) - 1, 1 << k, (1 << k) + 1}:
            if v < 0 or v >= (1 << 63):
                continue
            got = ce.width_from_max_int(v)
            n_exec += 1
            if got != v.bit_length():
                raise Fail("width_from_max_int|value", "width_from_max_int(%d) = %d, expected %d" % (v, got, v.bit_length()))
            nt.append(str(v))
    return n_exec, nt


def delta_values(width, count, is64, step=0):
    """Values whose first miniblock needs exactly `width` bits (min delta `step`, max delta step + 2**width - 1)."""
    bits = 64 if is64 else 32
    mask = (1 << bits) - 1
    vals = [5]
    for i in range(1, count):
        d = ((1 << width) - 1) if (i % 3 == 1 and width) else (i % 2 if width else 0)
        if width and i % 3 != 1:
            d = (i * 7) & ((1 << width) - 1)
            if i == 2:
                d = 0
        v = (vals[-1] + d + step) & mask
        vals.append(v)
    half = 1 << (bits - 1)
    return [v - (1 << bits) if v >= half else v for v in vals]


def _delta(case, tier):
    from fastparquet import cencoding as ce
    from vf.refpq import encodings as enc
    is64, width, (block, minis) = case["is64"], case["width"], case["shape"]
    per = block // minis
    counts = sorted(c for c in {2, 3, per - 1, per, per + 1, per + 2, 2 * per, 2 * per + 1, block, block + 2, 2 * block + 3} if c % block != 1)
    if case.get("single"):
        # one value left after full blocks: no block follows (its own case: recorded finding C12-delta-single-value)
        counts = [1, block + 1, 2 * block + 1]
    n_exec, nt = 0, []
    item = 8 if is64 else 4
    for count in counts:
        vals = delta_values(width, count, is64, case.get("step", 0))
        info = {}
        # miniblocks that hold no value carry an arbitrary width byte in every other stream
        unused = (13 if (count + width) % 2 else 0)
        body = enc.encode_delta(vals, block_size=block, miniblocks=minis, is64=is64, info=info, unused_width=unused)
        spec, _ = enc.decode_delta(body, 0, is64)
        if list(spec)[:count] != vals:
            raise AssertionError("oracle delta round trip failed")
        # the input ends where the stream ends: a decoder reading on is seen by the sanitised run (C12)
        raw = np.frombuffer(bytes(body), dtype=np.uint8).copy()
        arr = np.full((count + 8) * item, GUARD, dtype=np.uint8)
        o = ce.NumpyIO(arr[: count * item])
        ctx = "delta_binary_unpack(%s, miniblock width %d, block %d/%d, count=%d, min delta %d)" % (
            "INT64" if is64 else "INT32", width, block, minis, count, case.get("step", 0))
        try:
            ce.delta_binary_unpack(ce.NumpyIO(raw), o, longval=is64)
        except Exception as e:
            raise Fail("delta|raised|" + exc_sig(e), "%s: %s" % (ctx, exc_detail(e)))
        n_exec += 1
        if not (arr[count * item:] == GUARD).all():
            raise Fail("delta|overrun", "%s: bytes after the output were overwritten" % ctx)
        got = arr[: count * item].view("<i8" if is64 else "<i4").tolist()
        if got != vals:
            k = next(i for i in range(count) if got[i] != vals[i])
            raise Fail("delta|value|%s" % ("w<=8" if width <= 8 else "w<=16" if width <= 16 else "w<=28" if width <= 28 else "w>=29"),
                       "%s: value %d is %d, specification says %d" % (ctx, k, got[k], vals[k]))
        if count >= 8:
            nt.append(str(count))
    return n_exec, nt


def _byte_array(case, tier):
    from fastparquet import speedups
    from vf.refpq import encodings as enc
    n = case["n"]
    n_exec, nt = 0, []
    lens_sets = [[(i * 7) % 13 for i in range(n)], [0] * n, [300 if i == 0 else i % 3 for i in range(n)], [1] * n]
    for li, lens in enumerate(lens_sets):
        items = [bytes(((j * 31 + k) % 251) for k in range(L)) for j, L in enumerate(lens)]
        packed = speedups.pack_byte_array(list(items))
        n_exec += 1
        spec = b"".join(struct.pack("<I", len(b)) + b for b in items)
        if bytes(packed) != spec:
            raise Fail("pack_byte_array|value", "pack_byte_array of %d items (length set %d) differs from the specification" % (n, li))
        if n:
            got = speedups.unpack_byte_array(np.frombuffer(spec, dtype=np.uint8), n, utf=False)
            n_exec += 1
            if [x if not isinstance(x, (bytes, bytearray, memoryview)) else bytes(x) for x in got.tolist()] != items:
                raise Fail("unpack_byte_array|value", "unpack_byte_array of %d items (length set %d) differs" % (n, li))
            texts = [("é" * (L // 2) + "x" * (L % 2)) for L in lens]
            spec2 = b"".join(struct.pack("<I", len(t.encode())) + t.encode() for t in texts)
            got = speedups.unpack_byte_array(np.frombuffer(spec2, dtype=np.uint8), n, utf=True)
            n_exec += 1
            if got.tolist() != texts:
                raise Fail("unpack_byte_array|utf", "unpack_byte_array(utf=True) of %d items differs" % n)
            enc_ = speedups.array_encode_utf8(np.array(texts, dtype=object))
            n_exec += 1
            if [x if not isinstance(x, (bytes, bytearray, memoryview)) else bytes(x) for x in enc_.tolist()] != [t.encode() for t in texts]:
                raise Fail("array_encode_utf8|value", "array_encode_utf8 differs")
            nt.append("%d:%d" % (n, li))
    return n_exec, nt


def _encode(case, tier):
    from fastparquet import cencoding as ce
    from vf.refpq import encodings as enc
    width = case["width"]
    n_exec, nt = 0, []
    for count in (1, 7, 8, 9, 16, 17, 63, 64, 65):
        for pname, vals in _fills(min(width, 31), count, tier).items():
            data = np.array(vals, dtype=np.int32)
            for withlength in (0, 1):
                buf = np.full(count * 4 + 64, GUARD, dtype=np.uint8)
                o = ce.NumpyIO(buf)
                ce.encode_rle_bp(data, width, o, withlength)
                n_exec += 1
                raw = bytes(buf[: o.tell()])
                pos = 0
                if withlength:
                    ln = struct.unpack("<I", raw[:4])[0]
                    if ln != len(raw) - 4:
                        raise Fail("encode_rle_bp|length_prefix", "encode_rle_bp(width=%d, count=%d) length prefix %d, body %d" % (width, count, ln, len(raw) - 4))
                    pos = 4
                try:
                    spec, _ = enc.decode_hybrid(raw, pos, len(raw), width, count)
                except Exception as e:
                    raise Fail("encode_rle_bp|undecodable", "encode_rle_bp(width=%d, count=%d, %s): specification decoder fails: %s" % (width, count, pname, e))
                if list(spec) != vals:
                    raise Fail("encode_rle_bp|value|%s" % ("w<=24" if width <= 24 else "w>=25"),
                               "encode_rle_bp(width=%d, count=%d, %s) does not decode (by the specification) to its input" % (width, count, pname))
                if pname not in ("zeros", "ones") and count >= 8:
                    nt.append("%d:%s:%d" % (count, pname, withlength))
    return n_exec, nt


def probes():
    out = []
    for w in (25, 28, 32):
        out.append(("C11-bitpacked-width", {"f": "read_bitpacked", "width": w, "count": 16, "item": 4, "tier": "quick"}))
    for w, is64 in ((29, True), (31, False), (40, True), (57, True), (64, True)):
        out.append(("C11-delta-width", {"f": "delta", "is64": is64, "width": w, "shape": [128, 4], "tier": "quick"}))
    for w in (25, 29, 32):
        out.append(("C11-encode-width", {"f": "encode", "width": w, "tier": "quick"}))
    return out


def abbreviate(case):
    return case
