"""C13 - row-level filtering returns exactly the rows that satisfy the predicate."""
import numpy as np

from vf import common
from vf.model import filters as mf, frames_eq
from vf.props import filt_common as fc
from vf.runner import discard, exc_detail, exc_sig, ok, viol

ID = "C13"
LEVEL = "exploration"
RULE = ("Hypothesis draws the C05 datasets (multi-page chunks through a small page size, nulls, categoricals, v1/v2 pages, "
        "hive partitions; a unique _rid column identifies rows), the C05 filter programs and a requested column list with or "
        "without the filter columns; and arbitrary boolean masks (right and wrong length). Oracle: the independent three-valued "
        "evaluator: rows it calls T must be returned, rows it calls F must not, in original order, every requested column equal "
        "to the full read's row with the same id; count(filters, row_filter=True) equals the number of rows returned; a mask "
        "selects exactly the masked rows, a mask of the wrong length raises. Non-trivial: the predicate (or mask) selects a "
        "proper non-empty subset and the dataset has >= 2 pages in a chunk or >= 2 row groups.")
ASSUMPTIONS = [
    "rows whose membership depends on null semantics of != / not in (pandas: true, SQL: unknown) may be returned or not",
    "an exception raised while a filter is evaluated is a loud refusal (discarded, counted)",
    "tz-aware datetime columns are not used in row-level conditions: pruning accepts only naive-UTC constants and the row "
    "comparison only tz-aware ones, so every constant is refused by one side",
]
MANIFEST = {
    "category": "exploration",
    "technique": "property-based testing with an independent three-valued filter evaluator over row ids (exact set + order + column alignment) and generated boolean masks",
    "text": "Generated datasets x filter programs x requested columns, read with row_filter=True; the returned row ids must be "
            "exactly the rows the independent evaluator accepts (modulo rows that depend on null conventions), in order, with "
            "all requested columns aligned to the full read; generated boolean masks must select exactly the masked rows.",
    "note": "Trusted: the model evaluator; the unfiltered full read for column alignment (C01/C06 cover it).",
}
BUDGET = {"quick": {"shards": 8, "examples": 220, "wall": 110},
          "thorough": {"shards": 16, "examples": 5000, "wall": 1500}}


def strategy(tier):
    from hypothesis import strategies as st

    @st.composite
    def s(draw):
        case = draw(fc.strategy_(tier == "thorough", row_level=True))
        k = draw(st.integers(0, 5))
        if k == 0:
            n = case["frame"]["n"]
            case["mask"] = {"bits": draw(st.lists(st.booleans(), min_size=1, max_size=24)),
                            "wrong_len": draw(st.sampled_from([0, 0, 0, 1, -1]))}
        return case
    return s()


def _pages(pf):
    return 1


def run_case(case):
    labels = fc.labels_of(case)
    fr = case["frame"]
    with common.Scratch() as d:
        p = fc.prepare(case, d)
        if isinstance(p, tuple):
            return discard(p[1], labels)
        cols = case.get("columns")
        avail = [str(c) for c in p.full.columns]
        req = None
        if cols is not None:
            req = [c for c in cols if c in avail]
            if "_rid" not in req:
                req = req + ["_rid"]
        idx = {r: i for i, r in enumerate(p.rids)}
        if case.get("mask"):
            return _mask_case(case, p, req, idx, labels)
        F = p.api_filters
        try:
            res = p.pf.to_pandas(filters=F, row_filter=True, columns=req)
        except Exception as e:
            if fc.is_refusal(e):
                return discard("filter_refused:%s:%s" % (type(e).__name__, "+".join(sorted(fc.const_classes(case)))), labels)
            return viol("read_raised|%s|dpv%d" % (exc_sig(e), case["opts"].get("dpv", 1)), exc_detail(e), labels=labels)
        rr = [int(x) for x in res["_rid"].tolist()]
        must = [r for r in p.rids if p.verdict[r] == mf.T]
        mustnot = {r for r in p.rids if p.verdict[r] == mf.F}
        rset = set(rr)
        flat = "flat" if case["filters"]["flat"] and len(case["filters"]["groups"][0]) > 1 else "nested"
        if len(rset) != len(rr):
            return viol("duplicate_rows|" + flat, "row ids returned twice: %r" % rr[:30], labels=labels)
        extra = [r for r in rr if r in mustnot]
        if extra:
            return viol("extra_rows|%s|%s" % (flat, _why(case, p, extra[0])),
                        "row %d returned although the predicate is false for it; filters=%r; returned %r" % (extra[0], F, rr[:30]),
                        labels=labels)
        lost = [r for r in must if r not in rset]
        if lost:
            grp = next(g for g in p.groups if lost[0] in g)
            whole = not (set(grp) & rset)
            return viol("lost_rows|%s|%s%s" % (flat, _why(case, p, lost[0]), fc.notin_bound(case, p, grp) if whole else ""),
                        "row %d must qualify but was not returned; filters=%r; returned %r" % (lost[0], F, rr[:30]), labels=labels)
        order = [r for r in p.rids if r in rset]
        if order != rr:
            return viol("order", "rows not in original order: %r vs %r" % (rr[:30], order[:30]), labels=labels)
        r = _aligned(p, res, rr, idx)
        if r:
            return viol("alignment|" + r[0], r[1], labels=labels)
        try:
            cnt = int(p.pf.count(filters=F, row_filter=True))
        except Exception as e:
            return viol("count_raised|" + exc_sig(e), exc_detail(e), labels=labels)
        if cnt != len(rr):
            return viol("count_disagrees", "count(filters, row_filter=True)=%d but %d rows were returned" % (cnt, len(rr)), labels=labels)
        # the caller edits its own filter list in place and asks again through the same handle: the answer must be
        # that of the edited program (compared with a fresh handle given a fresh copy of it)
        if isinstance(F, list) and len(F) >= 2:
            import copy as _copy
            import fastparquet as _fp
            F.pop()
            try:
                again = [int(x) for x in p.pf.to_pandas(filters=F, row_filter=True, columns=["_rid"])["_rid"].tolist()]
                again_n = int(p.pf.count(filters=F, row_filter=True))
                fresh_pf = _fp.ParquetFile(p.path)
                fc.move_stats(fresh_pf, case.get("stats_fields"))
                fresh = [int(x) for x in fresh_pf.to_pandas(filters=_copy.deepcopy(F), row_filter=True, columns=["_rid"])["_rid"].tolist()]
            except Exception as e:
                if not fc.is_refusal(e):
                    return viol("second_query_raised|" + exc_sig(e), exc_detail(e), labels=labels)
                again = fresh = None
            if again is not None:
                labels.append("filter_list_edited_in_place")
                if again != fresh or again_n != len(fresh):
                    return viol("stale_answer_after_in_place_edit",
                                "after filters.pop() the same handle returns rows %r (count %d); a fresh handle returns %r for %r"
                                % (again[:30], again_n, fresh[:30], F), labels=labels)
        proper = 0 < len(rr) < len(p.rids)
        multi = len([g for g in p.groups if g]) >= 2 or bool(case["opts"].get("page_size"))
        if any(v == mf.U for v in p.verdict.values()):
            labels.append("has_convention_dependent_rows")
        return ok(proper and multi, labels + (["proper_subset"] if proper else []))


def _aligned(p, res, rr, idx):
    exp = p.full.iloc[[idx[r] for r in rr]].reset_index(drop=True)
    exp = exp[[c for c in res.columns]]
    pc = set(p.pf.cats)
    hard = [c for c in exp.columns if c not in pc]
    r = frames_eq.frames_equal(res[hard], exp[hard], check_categories=bool(len(exp)), check_index=False)
    if r is None and pc:
        soft = [c for c in exp.columns if c in pc]
        r = frames_eq.frames_equal(res[soft], exp[soft], check_dtype=False, check_categories=False, loose_numbers=True, check_index=False)
    return r


def _mask_case(case, p, req, idx, labels):
    labels = labels + ["mask"]
    total = len(p.rids)
    m = case["mask"]
    n = total + m["wrong_len"]
    if n < 0:
        n = 0
    bits = [bool(m["bits"][i % len(m["bits"])]) for i in range(n)]
    mask = np.array(bits, dtype=bool)
    try:
        res = p.pf.to_pandas(row_filter=mask, columns=req)
    except Exception as e:
        if n != total:
            return ok(True, labels + ["mask_wrong_length_raises"])
        return viol("mask_raised|%s|dpv%d" % (exc_sig(e), case["opts"].get("dpv", 1)), exc_detail(e), labels=labels)
    if n != total:
        return viol("mask_wrong_length_accepted", "mask of length %d accepted for %d rows" % (n, total), labels=labels)
    rr = [int(x) for x in res["_rid"].tolist()]
    want = [r for r, b in zip(p.rids, bits) if b]
    if rr != want:
        return viol("mask_rows", "mask selected rows %r, expected %r" % (rr[:30], want[:30]), labels=labels)
    r = _aligned(p, res, rr, idx)
    if r:
        return viol("mask_alignment|" + r[0], r[1], labels=labels)
    proper = 0 < len(rr) < total
    return ok(proper, labels)


def _why(case, p, rid):
    fr = case["frame"]
    cols = {c["name"]: c for c in fr["cols"]}
    pn = set(case.get("partition_on") or [])
    parts = sorted({"%s:%s%s" % (c["op"], cols[c["col"]]["kind"], ":part" if c["col"] in pn else "")
                    for g in case["filters"]["groups"] for c in g})
    tag = "part" if any(p_.endswith(":part") for p_ in parts) else "nopart"
    return "%s|%s" % (tag, "+".join(parts) if len(parts) <= 2 else "%d-conds" % len(parts))


def shrink_moves(case):
    if case.get("mask"):
        import copy
        c = copy.deepcopy(case)
        c["mask"]["bits"] = c["mask"]["bits"][: max(1, len(c["mask"]["bits"]) // 2)]
        if c != case:
            yield c
    yield from fc.shrink_moves(case)


def abbreviate(case):
    from vf import shrinkers
    return shrinkers.abbreviate_frame_case(case)
