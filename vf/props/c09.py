"""C09 - dataset edits follow a simple model and keep metadata and directory in agreement."""
import collections
import copy
import os

import numpy as np
from hypothesis import strategies as st

from vf import cases, common, dsinv, shrinkers
from vf.cases import MISSING
from vf.gen import datasets, frames
from vf.model import table
from vf.runner import discard, exc_detail, exc_sig, ok, viol

ID = "C09"
LEVEL = "exploration"
RULE = ("Hypothesis draws a history over a hive dataset created in an empty directory with 0-2 partition columns: initial write, "
        "then 1-7 operations from {append, append='overwrite' (partitioned only), remove_row_groups(subset, sort_pnames), "
        "write_row_groups(sort_key stable per partition, sort_pnames), keep-or-reopen the handle}; frames are small (<= 12 "
        "rows) and partition pools tiny so partitions collide; a unique _rid column identifies rows. Model: multiset of rows "
        "with per-partition write order: overwrite replaces exactly the partitions present in the new data, remove deletes "
        "exactly the rows of the chosen row groups, append/write_row_groups add rows. After EVERY operation a fresh open must "
        "read exactly the model, and the agreement invariant must hold: each referenced file exists with the stated rows, no "
        "unreferenced part file or *.tmp, schemas of _metadata/_common_metadata/part files equal. Non-trivial: >= 3 mutating "
        "steps including an overwrite or a remove after an append.")
ASSUMPTIONS = [
    "which rows a row group holds is read from the dataset itself (per-row-group read of _rid) just before it is removed",
    "global row-group order is not modelled (sort_key and overwrite reorder it); order is checked within each partition",
    "rows with null partition keys are dropped (documented)",
]
MANIFEST = {
    "category": "exploration",
    "technique": "model-based property testing of generated operation histories (write/append/overwrite/remove/renumber) with a row-id model and a metadata-vs-directory invariant after every step",
    "text": "Generated histories of dataset edits; after every step the content read from a fresh handle equals the model and "
            "_metadata agrees with the directory (files exist with stated rows, nothing unreferenced or temporary left, schemas equal).",
    "note": "Trusted: per-row-group reads used to learn which rows a to-be-removed row group holds; ParquetFile for reading part "
            "files in the agreement invariant. Histories are one generated composite value (plain JSON), replayable without Hypothesis.",
}
BUDGET = {"quick": {"shards": 8, "examples": 200, "wall": 110},
          "thorough": {"shards": 16, "examples": 1500, "wall": 1500}}
VALUE_KINDS = ["int", "float", "text", "bool", "datetime", "nullable"]


@st.composite
def strategy_(draw, thorough):
    nparts = draw(st.sampled_from([0, 1, 1, 2]))
    if nparts:
        base = draw(datasets.partitioned(value_kinds=VALUE_KINDS, max_parts=nparts, min_rows=1, schemes=("hive",),
                                         pkinds=("int", "text", "bool", "category", "datetime", "float"), pnulls=False, max_value_cols=3))
    else:
        base = draw(frames.frame_and_options(kinds=VALUE_KINDS, schemes=("hive",), index=False, min_rows=1, max_cols=3))
        base["partition_on"] = []
    fr0, opts = base["frame"], base["opts"]
    fr0["n"] = min(fr0["n"], 12)
    fr0["index"] = None
    frames.pin_object_schema(fr0)
    opts.update({"write_index": False, "page_size": None, "has_nulls": True, "times": "int64", "object_encoding": "infer"})
    pn = list(base["partition_on"])
    steps = []
    for _ in range(draw(st.integers(1, 7))):
        kinds = ["append", "append", "remove", "write_row_groups"] + (["overwrite", "overwrite"] if pn else [])
        k = draw(st.sampled_from(kinds))
        step = {"op": k, "reuse_handle": draw(st.booleans())}
        if k in ("append", "overwrite", "write_row_groups"):
            vfr = {"n": 0, "cols": [c for c in fr0["cols"] if c["name"] not in pn], "index": None}
            nf = draw(frames.compatible_frame(vfr, rows=[0, 1, 2, 3, 5, 8], same_categories=True))
            nf["n"] = min(nf["n"], 12)
            cols, it = [], iter(nf["cols"])
            for c in fr0["cols"]:
                if c["name"] in pn:
                    pc = copy.deepcopy(c)
                    pc["idx"] = draw(st.lists(st.integers(0, 5), min_size=1, max_size=8))
                    cols.append(pc)
                else:
                    cols.append(next(it))
            nf["cols"] = cols
            step["frame"] = nf
            step["rgo"] = draw(st.one_of(st.none(), st.integers(1, max(1, nf["n"]))))
            if k == "write_row_groups":
                step["sort_key"] = draw(st.sampled_from([None, "partition", "const", "newest_first"]))
                step["sort_pnames"] = draw(st.booleans())
            if k == "overwrite" and nf["n"] == 0:
                nf["n"] = 1
        else:
            step["pick"] = draw(st.lists(st.integers(0, 9), min_size=0, max_size=4))
            step["sort_pnames"] = draw(st.booleans())
        steps.append(step)
    # how the caller reaches the dataset: by its directory (the library picks a file system), by the path of the summary
    # file itself (what dask hands over), or through its own open/mkdirs functions
    return {"frame": fr0, "opts": opts, "partition_on": pn, "steps": steps,
            "open_mode": draw(st.sampled_from(["dir", "dir", "metadata_path", "callables"]))}


def strategy(tier):
    return strategy_(tier == "thorough")


class Model:
    def __init__(self, pn):
        self.pn = pn
        self.rows = collections.OrderedDict()   # rid -> (key, {col: cell})
        self.next = 0
        self.ordered = True

    def add(self, fr, vnames):
        n = fr["n"]
        cells = {c["name"]: cases.expected_column(c, n) for c in fr["cols"]}
        rids = list(range(self.next, self.next + n))
        self.next += n
        new = []
        for i, rid in enumerate(rids):
            key = tuple(cells[p][i] for p in self.pn)
            if any(x is MISSING for x in key):
                continue
            new.append((rid, key, {v: cells[v][i] for v in vnames}))
        return rids, new


def run_case(case):
    import fastparquet
    from fastparquet.api import partitions
    fr0, opts, pn = case["frame"], case["opts"], list(case["partition_on"])
    colspec = {c["name"]: c for c in fr0["cols"]}
    vnames = [c["name"] for c in fr0["cols"] if c["name"] not in pn]
    labels = ["nparts:%d" % len(pn), "steps:%d" % len(case["steps"])]
    model = Model(pn)
    with common.Scratch() as d:
        path = os.path.join(d, "ds")
        df = cases.build_frame(fr0)
        rids, new = model.add(fr0, vnames)
        df["_rid"] = np.array(rids, dtype="int64")
        kw = cases.write_kwargs(opts)
        if pn:
            kw["partition_on"] = pn
        try:
            fastparquet.write(path, df, **kw)
        except Exception as e:
            return discard("create_raised", labels)
        for rid, key, cells in new:
            model.rows[rid] = (key, cells)
        r = _verify(path, model, colspec, vnames, pn)
        if r:
            return discard("create_roundtrip_differs(C01/C08):" + r[0], labels)
        pf = None
        mutating = []
        om = case.get("open_mode", "dir")
        labels.append("open:" + om)
        iokw = {}
        if om == "callables":
            def _ow(p_, mode="rb"):
                return open(p_, mode)

            def _mk(p_):
                os.makedirs(p_, exist_ok=True)
            iokw = {"open_with": _ow, "mkdirs": _mk}

        def _handle():
            if om == "metadata_path":
                return fastparquet.ParquetFile(os.path.join(path, "_metadata"))
            if om == "callables":
                return fastparquet.ParquetFile(path, open_with=iokw["open_with"])
            return fastparquet.ParquetFile(path)
        for si, step in enumerate(case["steps"]):
            op = step["op"]
            labels.append("op:" + op)
            try:
                if pf is None or not step.get("reuse_handle"):
                    pf = _handle()
                if pn and not pf.row_groups and op != "remove":
                    # partition columns are known from the directory names of the row groups: an
                    # emptied dataset has none, and the library refuses partitioned writes to it
                    labels.append("stopped:emptied_partitioned_dataset")
                    break
                if op in ("append", "overwrite", "write_row_groups"):
                    fr = step["frame"]
                    dfk = cases.build_frame(fr)
                    rids, new = model.add(fr, vnames)
                    dfk["_rid"] = np.array(rids, dtype="int64")
                    if op == "append":
                        kw = {"append": True, "file_scheme": "hive", "row_group_offsets": step["rgo"]}
                        if pn:
                            kw["partition_on"] = pn
                        fastparquet.write(path, dfk, **kw, **iokw)
                        pf = None
                    elif op == "overwrite":
                        fastparquet.write(path, dfk, append="overwrite", file_scheme="hive", partition_on=pn,
                                          row_group_offsets=step["rgo"], **iokw)
                        pf = None
                        newkeys = {key for _, key, _ in new}
                        for rid in [r_ for r_, (k_, _) in model.rows.items() if k_ in newkeys]:
                            del model.rows[rid]
                    else:
                        sk = {None: None, "partition": (lambda rg: partitions(rg) or ""), "const": (lambda rg: 0),
                              "newest_first": _newest_first}[step.get("sort_key")]
                        if step.get("sort_key") == "newest_first":
                            # (row groups are no longer in write order within a partition: the order check stops here)
                            model.ordered = False
                            labels.append("row_groups_reordered_by_sort_key")
                        pf.write_row_groups(dfk, row_group_offsets=step["rgo"], sort_key=sk, sort_pnames=bool(step.get("sort_pnames")), **iokw)
                    for rid, key, cells in new:
                        model.rows[rid] = (key, cells)
                    if new:
                        mutating.append(op)
                else:
                    nrg = len(pf.row_groups)
                    picks = sorted({i % nrg for i in step["pick"]}) if nrg else []
                    gone = []
                    for i in picks:
                        gone += [int(x) for x in pf[i].to_pandas(columns=["_rid"])["_rid"].tolist()]
                    rgs = [pf.row_groups[i] for i in picks]
                    pf.remove_row_groups(rgs, sort_pnames=bool(step.get("sort_pnames")),
                                         **({"open_with": iokw["open_with"]} if iokw else {}))
                    for rid in gone:
                        if rid not in model.rows:
                            return viol("model_mismatch_on_remove", "row group to remove held row id %d unknown to the model" % rid, labels=labels)
                        del model.rows[rid]
                    if gone:
                        mutating.append("remove")
            except Exception as e:
                return viol("op_raised|%s|%s" % (op, exc_sig(e)), "step %d (%s): %s" % (si, op, exc_detail(e)), labels=labels)
            r = _verify(path, model, colspec, vnames, pn)
            if r:
                prev = "+".join(sorted(set(mutating[:-1]))) or "none"
                return viol("%s|after:%s|%s" % (r[0], op, "part" if pn else "nopart"), "step %d (%s): %s" % (si, op, r[1]), labels=labels)
            r = dsinv.agreement(path)
            if r:
                return viol("agreement|%s|after:%s" % (r[0], op), "step %d (%s): %s" % (si, op, r[1]), labels=labels)
            # a handle kept across steps must still describe the dataset
            if pf is not None and step.get("reuse_handle"):
                try:
                    if sorted(int(x) for x in pf.to_pandas(columns=["_rid"])["_rid"].tolist()) != sorted(model.rows):
                        return viol("live_handle_stale|after:%s" % op, "step %d: the handle that performed %s no longer reads the dataset's rows" % (si, op), labels=labels)
                except Exception as e:
                    return viol("live_handle_raised|after:%s|%s" % (op, exc_sig(e)), exc_detail(e), labels=labels)
    nt = len(mutating) >= 3 and any(m in ("overwrite", "remove") and "append" in mutating[:i] + ["append" if "write_row_groups" in mutating[:i] else ""]
                                     for i, m in enumerate(mutating))
    return ok(nt, labels + ["mutating:%d" % min(len(mutating), 6)])


def _newest_first(rg):
    import re
    m = re.search(r"part\.(\d+)\.parquet$", rg.columns[0].file_path or "")
    return -int(m.group(1)) if m else 0


def _verify(path, model, colspec, vnames, pn):
    import fastparquet
    try:
        out = fastparquet.ParquetFile(path).to_pandas()
    except Exception as e:
        return ("read_raised|" + exc_sig(e), exc_detail(e))
    if not len(model.rows) and len(out) == 0:
        return None
    if "_rid" not in out.columns:
        return ("names", "no _rid column in %r" % list(out.columns))
    rr = [int(x) for x in out["_rid"].tolist()]
    if sorted(rr) != sorted(model.rows):
        extra = sorted(set(rr) - set(model.rows))[:10]
        lost = sorted(set(model.rows) - set(rr))[:10]
        dup = len(rr) != len(set(rr))
        return ("rows" + ("_duplicated" if dup else "_resurrected" if extra else "_lost"),
                "row ids read %r; unexpected %r; missing %r" % (sorted(rr)[:30], extra, lost))
    last = {}
    for rid in (rr if model.ordered else []):
        key = model.rows[rid][0]
        if last.get(key, -1) > rid:
            return ("partition_order", "rows of partition %r not in write order: %r" % (key, rr[:40]))
        last[key] = rid
    for v in vnames:
        if v not in out.columns:
            return ("names", "column %r missing" % v)
        got, problems = table.canon_cells(out[v], colspec[v])
        if problems:
            return ("celltype", problems[0])
        for pos, rid in enumerate(rr):
            e, g = model.rows[rid][1][v], got[pos]
            if (e is MISSING) != (g is MISSING) or (e is not MISSING and (type(e) is not type(g) or e != g)):
                return ("value|" + colspec[v]["kind"], "column %r row id %d: expected %r got %r" % (v, rid, e, g))
    from vf.props.c08 import part_label_canon
    for j, p in enumerate(pn):
        if p not in out.columns:
            return ("names", "partition column %r missing" % p)
        s = out[p]
        vals = s.astype(object).tolist()
        for pos, rid in enumerate(rr):
            e = model.rows[rid][0][j]
            g = part_label_canon(colspec[p], vals[pos])
            if e != g:
                return ("partition_value", "partition column %r row id %d: expected %r got %r" % (p, rid, e, g))
    return None


def shrink_moves(case):
    for steps in shrinkers.list_moves(case["steps"], 1):
        c = copy.deepcopy(case)
        c["steps"] = steps
        yield c
    for si, st_ in enumerate(case["steps"]):
        for k, v in (("reuse_handle", False), ("sort_pnames", False), ("sort_key", None), ("rgo", None)):
            if st_.get(k) not in (None, v) or (k in st_ and st_[k] != v and v is None and st_[k] is not None):
                c = copy.deepcopy(case)
                c["steps"][si][k] = v
                yield c
        if "frame" in st_:
            for new_n in sorted({0, 1, 2, st_["frame"]["n"] - 1}):
                if 0 <= new_n < st_["frame"]["n"] and not (st_["op"] == "overwrite" and new_n == 0):
                    c = copy.deepcopy(case)
                    c["steps"][si]["frame"]["n"] = new_n
                    yield c
        if st_.get("pick") and len(st_["pick"]) > 1:
            for pk in shrinkers.list_moves(st_["pick"], 1):
                c = copy.deepcopy(case)
                c["steps"][si]["pick"] = pk
                yield c
    for new_n in sorted({1, 2, case["frame"]["n"] - 1}):
        if 1 <= new_n < case["frame"]["n"]:
            c = copy.deepcopy(case)
            c["frame"]["n"] = new_n
            yield c
    if case["opts"].get("rgo") is not None:
        c = copy.deepcopy(case)
        c["opts"]["rgo"] = None
        yield c
    if case["opts"].get("compression") is not None:
        c = copy.deepcopy(case)
        c["opts"]["compression"] = None
        yield c
    names = [c["name"] for c in case["frame"]["cols"] if c["name"] not in case["partition_on"]]
    if len(names) > 1:
        for nm in names:
            c = copy.deepcopy(case)
            c["frame"]["cols"] = [x for x in c["frame"]["cols"] if x["name"] != nm]
            for s_ in c["steps"]:
                if "frame" in s_:
                    s_["frame"]["cols"] = [x for x in s_["frame"]["cols"] if x["name"] != nm]
            yield c


def abbreviate(case):
    return {"frame": shrinkers.abbreviate_frame(case["frame"]), "partition_on": case["partition_on"],
            "steps": [{k: (shrinkers.abbreviate_frame(v) if k == "frame" else v) for k, v in s.items()} for s in case["steps"]]}
