"""Shared by C05 (row-group pruning is sound) and C13 (row-level filtering is exact)."""
import copy

from hypothesis import strategies as st

from vf import cases, common, shrinkers
from vf.cases import MISSING
from vf.gen import datasets, filters as gfilters
from vf.model import filters as mfilters
from vf.props import c01
from vf.runner import exc_sig

VALUE_KINDS = ["int", "float", "text", "datetime", "category", "nullable", "bool"]


@st.composite
def strategy_(draw, thorough, row_level):
    case = draw(datasets.dataset(thorough=thorough, value_kinds=VALUE_KINDS, min_rows=draw(st.sampled_from([1, 2, 4])),
                                 partition_prob=3))
    fr, opts = case["frame"], case["opts"]
    n = fr["n"]
    if n >= 2 and draw(st.integers(0, 5)) > 0:
        opts["rgo"] = draw(st.integers(1, max(1, n // 2)))
    sk = draw(st.integers(0, 5))
    if sk <= 1:
        opts["stats"] = True          # statistics for text/category columns too
    elif sk == 2:
        # statistics for a subset only: chunks with a null count but no min/max next to chunks with bounds
        opts["stats"] = [c["name"] for c in fr["cols"] if draw(st.booleans())]
    elif sk == 3:
        opts["stats"] = "auto"
    if row_level and draw(st.integers(0, 2)) > 0 and not opts.get("page_size"):
        opts["page_size"] = draw(st.sampled_from([16, 24, 32, 64]))
    opts["write_index"] = False
    fr["index"] = None
    pn = list(case.get("partition_on") or [])
    hive = opts.get("file_scheme") == "hive"
    cols = [c for c in fr["cols"] if c["kind"] in gfilters.FILTERABLE
            and (c["name"] not in pn or hive or _plain_text_level(c, opts))
            and not (row_level and c["kind"] == "datetime" and c.get("tz"))]
    pcols = [c for c in (cols or []) if c["name"] in pn]
    if pcols and draw(st.integers(0, 3)) == 0:
        # a program that names partition columns only: nothing but the directory names can answer it
        cols = pcols
    if not cols:
        cols = None
    case["filters"] = draw(gfilters.program(cols, n)) if cols else {"flat": True, "groups": [[]]}
    # which pair of Statistics fields carries the bounds: the deprecated min/max (what this writer fills in), the
    # current min_value/max_value only (parquet-mr, arrow for strings), or both
    case["stats_fields"] = draw(st.sampled_from(["as_written", "as_written", "as_written", "new_only", "both"]))
    if row_level:
        names = [c["name"] for c in fr["cols"]]
        case["columns"] = draw(st.one_of(st.none(), st.lists(st.sampled_from(names), unique=True, max_size=len(names))))
    return case


def _plain_text_level(col, opts):
    """A drill directory level whose labels all stay text when read back (none looks like a number, date, duration or
    null): its positional column dir<i> holds exactly the written texts, so conditions on it have a defined answer."""
    if opts.get("file_scheme") != "drill" or col["kind"] not in ("text", "category") or col["null"]["pat"] != "none":
        return False
    if col["kind"] == "category" and col.get("labels") != "text":
        return False
    from vf.finding_predicates import _coercible
    labels = col["cats"] if col["kind"] == "category" else col["pool"]
    return all(isinstance(t, str) and t and not _coercible(t) and t.lower() not in ("nan", "nat", "none", "null", "now", "today")
               for t in labels)


def api_names(case):
    """Partition columns of a drill dataset are called dir0, dir1, ... by position."""
    if case["opts"].get("file_scheme") != "drill":
        return {}
    return {name: "dir%d" % i for i, name in enumerate(case.get("partition_on") or [])}


class Prepared:
    pass


def move_stats(pf, how):
    """Present the bounds of every chunk in the Statistics fields another writer would have used (same values)."""
    if how not in ("new_only", "both"):
        return
    for rg in pf.row_groups:
        for col in rg.columns:
            s = col.meta_data.statistics
            if s is None:
                continue
            if s.min is not None or s.max is not None:
                s.min_value, s.max_value = s.min, s.max
                if how == "new_only":
                    s.min, s.max = None, None


def prepare(case, d):
    """Write the dataset (with _rid), open it, read it fully and per row group.
    Returns Prepared or ('discard', reason)."""
    import fastparquet
    fr, opts = case["frame"], case["opts"]
    if not case["filters"]["groups"] or not case["filters"]["groups"][0]:
        return ("discard", "no filterable column")
    if cases.required_with_missing(fr, opts):
        return ("discard", "missing category cell in a required column (invalid file, C18)")
    df, path, err = c01.write_case(case, d, add_rid=True)
    if err is not None:
        return ("discard", "write_raised")
    p = Prepared()
    try:
        p.pf = fastparquet.ParquetFile(path)
        move_stats(p.pf, case.get("stats_fields"))
        p.full = p.pf.to_pandas()
        p.groups = [[int(x) for x in p.pf[i].to_pandas(columns=["_rid"])["_rid"].tolist()] for i in range(len(p.pf.row_groups))]
    except Exception as e:
        return ("discard", "unfiltered_read_raised:" + exc_sig(e))
    p.rids = [int(x) for x in p.full["_rid"].tolist()]
    if [r for g in p.groups for r in g] != p.rids:
        return ("discard", "per-row-group reads disagree with the full read (C06)")
    p.path = path
    n = fr["n"]
    cols = {c["name"]: c for c in fr["cols"]}
    used = sorted({c["col"] for g in case["filters"]["groups"] for c in g})
    cells = {name: gfilters.cell_values(cols[name], n) for name in used}
    p.groups_model = [[(c["col"], c["op"], _coerce(cols[c["col"]], gfilters.model_const(c["val"]), case, c["op"])) for c in g]
                      for g in case["filters"]["groups"]]
    p.verdict = {}
    for rid in p.rids:
        row = {name: cells[name][rid] for name in used}
        p.verdict[rid] = mfilters.evaluate(p.groups_model, row)
    p.api_filters = gfilters.to_api(case["filters"], api_names(case))
    return p


def _coerce(col, const, case, op="=="):
    if col["kind"] == "category" and col.get("ordered") and op in ("<", "<=", ">", ">="):
        # pandas orders an ordered categorical by category position, parquet statistics by
        # label value: no single convention for "satisfies" -> incomparable (U)
        return ("fuzzy", const)
    """A text constant against a non-text hive partition column is parsed by the
    library with the column's recorded type; mirror that when it is unambiguous."""
    if col["kind"] == "datetime" and op in ("in", "not in") and isinstance(const, list):
        # pandas.isin casts the listed instants to the column's unit (lossy), scalar comparisons do not:
        # an instant the column's unit cannot hold has no agreed membership -> incomparable (U)
        u = cases.UNIT_NS[col["unit"]]
        if col["name"] in (case.get("partition_on") or []):
            # a partition column's dtype is inferred from the labels in the paths: the coarsest of s/ms/us/ns that holds
            # them all (pandas >= 3); take the coarsest that holds the instants present in the frame
            present = [v[1] for v in gfilters.cell_values(col, case["frame"]["n"]) if isinstance(v, tuple)]
            u = next((k for k in (10 ** 9, 10 ** 6, 10 ** 3) if all(x % k == 0 for x in present)), 1)
        return [("fuzzy", c) if (isinstance(c, tuple) and c[1] % u) else c for c in const]
    if col["kind"] == "float" and col.get("sub") == "float32":
        # numpy >= 2 compares a float32 value with a Python float in float32 (weak scalar
        # promotion), in pruning and in pandas row filtering alike: the model does the same
        import numpy as np

        def f32(x):
            if isinstance(x, (int, float)) and not isinstance(x, bool):
                with np.errstate(all="ignore"):
                    y = float(np.float32(x))
                # a constant that float32 cannot hold compares differently in the scalar
                # (float32) and the isin / searchsorted (float64) code paths of numpy and
                # pandas: no convention to hold the library to -> incomparable (U)
                return y if (y == x or x != x) else ("fuzzy", x)
            return x
        return [f32(x) for x in const] if isinstance(const, list) else f32(const)
    return const


def const_classes(case):
    out = set()
    for g in case["filters"]["groups"]:
        for c in g:
            v = c["val"]
            for e in (v if isinstance(v, list) else [v]):
                out.add(e["k"])
    return out


def labels_of(case, p=None):
    fr = case["frame"]
    cols = {c["name"]: c for c in fr["cols"]}
    labs = ["scheme:" + case["opts"].get("file_scheme", "simple"), "flat" if case["filters"]["flat"] else "nested",
            "groups:%d" % len(case["filters"]["groups"])]
    pn = set(case.get("partition_on") or [])
    for g in case["filters"]["groups"]:
        for c in g:
            labs.append("op:" + c["op"])
            labs.append("ckind:" + cols[c["col"]]["kind"])
            if c["col"] in pn:
                labs.append("on_partition")
            if c["op"] in ("in", "not in") and not c["val"]:
                labs.append("empty_list")
    conds = [c for g in case["filters"]["groups"] for c in g]
    if conds and pn and all(c["col"] in pn for c in conds):
        labs.append("only_partition_conditions")
    labs.append("stats:%s" % (case["opts"].get("stats") if not isinstance(case["opts"].get("stats"), list) else "list"))
    if pn:
        labs.append("partitioned")
    return sorted(set(labs))


def shrink_moves(case):
    f = case["filters"]
    if len(f["groups"]) > 1:
        for i in range(len(f["groups"])):
            c = copy.deepcopy(case)
            del c["filters"]["groups"][i]
            yield c
    for gi, g in enumerate(f["groups"]):
        if len(g) > 1:
            for i in range(len(g)):
                c = copy.deepcopy(case)
                del c["filters"]["groups"][gi][i]
                yield c
        for ci, cd in enumerate(g):
            if isinstance(cd["val"], list) and len(cd["val"]) > 1:
                for i in range(len(cd["val"])):
                    c = copy.deepcopy(case)
                    del c["filters"]["groups"][gi][ci]["val"][i]
                    yield c
    if case.get("columns") is not None:
        c = copy.deepcopy(case)
        c["columns"] = None
        yield c
    used = {c["col"] for g in f["groups"] for c in g}
    base = {k: v for k, v in case.items() if k not in ("filters", "columns")}
    for c in shrinkers.frame_opts_moves(base):
        names = {x["name"] for x in c["frame"]["cols"]}
        if not used <= names:
            continue
        pn = [p for p in case.get("partition_on") or [] if p in names]
        if len(pn) != len(case.get("partition_on") or []):
            continue
        if pn and (c["opts"].get("file_scheme") == "simple" or not (names - set(pn))):
            continue
        c = dict(c, filters=copy.deepcopy(f), partition_on=pn)
        if "columns" in case:
            c["columns"] = None if case["columns"] is None else [x for x in case["columns"] if x in names]
        yield c


REFUSAL_SITES = {"filter_val", "filter_in", "filter_not_in", "filter_out_stats", "filter_out_cats", "filter_row_groups",
                 "_column_filter", "column", "val_from_meta", "val_to_num", "_val_to_num", "schema_element",
                 "check_column_names", "_columns_from_filters"}


def is_refusal(e):
    """An exception raised while the filter expression itself is evaluated is a loud
    refusal; one raised while data is being read is a failure of the read."""
    sig = exc_sig(e)
    fn = sig.rsplit(":", 1)[-1]
    return fn in REFUSAL_SITES


def notin_bound(case, p, group_rids):
    """Marker for the known 'not in' defect (C05-not-in-bound): some `not in` list contains
    the smallest or largest non-missing value the column takes in the row group."""
    fr = case["frame"]
    cols = {c["name"]: c for c in fr["cols"]}
    for g, gm in zip(case["filters"]["groups"], p.groups_model):
        for c, (col, op, val) in zip(g, gm):
            if op != "not in" or not val:
                continue
            cells = gfilters.cell_values(cols[col], fr["n"])
            present = [cells[r] for r in group_rids if cells[r] is not MISSING]
            keys = [mfilters._key(x) for x in present]
            if not keys:
                continue
            try:
                lo, hi = min(keys), max(keys)
            except TypeError:
                continue
            vals = [mfilters._key(v) for v in val if mfilters._cls(v) == mfilters._cls(present[0])]
            if lo in vals or hi in vals:
                return "|notin_bound"
    return ""
