"""C17 - metadata-only answers (columns, dtypes, counts) match the data actually read."""
import copy
import json
import os

import numpy as np
import pandas as pd
from hypothesis import strategies as st

from vf import cases, common, shrinkers
from vf.gen import datasets, frames, plans
from vf.props import c01
from vf.runner import discard, exc_detail, exc_sig, ok, viol

ID = "C17"
LEVEL = "exploration"
RULE = ("Hypothesis draws a file source - (a) the library's own writer over C01 frames/options, (b) C08 partitioned datasets, "
        "(c) foreign flat files from the specification-level encoder (C03 plans) with or without pyarrow-style pandas metadata "
        "and with or without statistics - and read options (pandas_nulls True/False, columns subset, categories None/list/dict, "
        "index default/False, identity dtypes override). Differential inside one handle: columns / dtypes / _dtypes(categories) / "
        "categories / cats / _get_index() / count() / info / per-row-group num_rows versus to_pandas(same options): column list, "
        "each result dtype, which columns are categorical, index names, shape, lengths from iter_row_groups. Non-trivial: the file "
        "has nulls in an int/bool column, or categoricals, or partitions, or no pandas metadata.")
ASSUMPTIONS = [
    "dtypes are compared after normalisation through pandas.api.types.pandas_dtype (a numpy scalar such as np.float64() names float64)",
    "column order is compared for the full read only (projected reads: C06)",
    "agreement only: whether the values are right is C01/C03's subject",
]
MANIFEST = {
    "category": "exploration",
    "technique": "differential property-based testing inside one handle: metadata-derived predictions versus the frame actually read, over own-writer, partitioned and foreign files",
    "text": "For generated files of three origins and generated read options, everything a handle predicts from metadata alone "
            "(columns, dtypes, categorical and partition columns, index, counts) must equal what the read then produces.",
    "note": "Trusted: pandas dtype normalisation; refpq.writer for the foreign files.",
}
BUDGET = {"quick": {"shards": 8, "examples": 220, "wall": 110},
          "thorough": {"shards": 16, "examples": 6000, "wall": 1500}}

KIND_META = {   # value kind of a plan column -> (pandas_type, numpy_type) as pyarrow would record them
    "bool": ("bool", "bool"), "i8": ("int8", "int8"), "i16": ("int16", "int16"), "i32": ("int32", "int32"), "i64": ("int64", "int64"),
    "u8": ("uint8", "uint8"), "u16": ("uint16", "uint16"), "u32": ("uint32", "uint32"), "u64": ("uint64", "uint64"),
    "f32": ("float32", "float32"), "f64": ("float64", "float64"), "text": ("unicode", "object"), "bytes": ("bytes", "object"),
    "ts_ms": ("datetime", "datetime64[ms]"), "ts_us": ("datetime", "datetime64[us]"), "ts_ns": ("datetime", "datetime64[ns]"),
    "date": ("date", "object"),
}
FOREIGN_KEYS = ["bool", "i32", "i8", "i16", "u8", "u16", "u32", "i64", "u64", "ts_ms", "ts_us", "ts_ns", "f32", "f64", "bytes", "utf8", "string"]


@st.composite
def strategy_(draw, thorough):
    src = draw(st.sampled_from(["own", "own", "partitioned", "foreign", "foreign"]))
    if src == "own":
        case = draw(frames.frame_and_options(thorough=thorough))
        case["partition_on"] = []
    elif src == "partitioned":
        case = draw(datasets.partitioned(thorough=thorough))
    else:
        case = draw(plans.flat_plan(thorough=False, allow={"max_index_width": 16, "delta": False, "rle_bool": False}, type_keys=FOREIGN_KEYS))
        meta = draw(st.sampled_from(["none", "none", "pandas", "pandas_nullable", "pandas_range_index", "pandas_categorical"]))
        case["pandas_meta"] = meta
    case["src"] = src
    case["read"] = {"pandas_nulls": draw(st.booleans()), "index": draw(st.sampled_from(["default", "default", False])),
                    "columns": draw(st.integers(0, 3)) == 0, "categories": draw(st.sampled_from([None, None, "list", "dict"])),
                    "dtypes_identity": draw(st.integers(0, 5)) == 0, "colpick": draw(st.lists(st.integers(0, 11), min_size=1, max_size=4))}
    return case


@st.composite
def many_categories_(draw):
    """A categorical with a label count around the width limits of the codes (int8/int16): the handle reports the column
    as categorical for every form of the `categories` option, and the read must then deliver it."""
    return {"src": "many_categories", "labels": draw(st.sampled_from([128, 129, 200, 32767, 32768, 32768, 32769, 40000])),
            "form": draw(st.sampled_from(["list", "list", "dict", "none"])), "rows": draw(st.sampled_from([1, 7])),
            # all labels in use, or only the first 60 of them (declared but unused labels still belong to the column)
            "used": draw(st.sampled_from(["all", "all", "some"])),
            "read": {"pandas_nulls": True}}


def strategy(tier):
    return st.integers(0, 19).flatmap(lambda k: many_categories_() if k == 0 else strategy_(tier == "thorough"))


def _many_categories(case):
    import fastparquet
    n, form = case["labels"], case["form"]
    labels = ["src:many_categories", "form:" + form, "labels:%s" % ("<2^7" if n < 128 else "<2^15" if n < 32768 else ">=2^15")]
    cats = ["c%05d" % i for i in range(n)]
    codes = [(i * 7919) % n for i in range(n)]
    if case.get("used") == "some":
        codes = [c % 60 for c in codes[:300]]
    df = pd.DataFrame({"x": pd.Categorical.from_codes(codes, categories=cats), "v": np.arange(len(codes), dtype="int64")})
    with common.Scratch() as d:
        path = os.path.join(d, "t.parq")
        try:
            fastparquet.write(path, df)
        except Exception as e:
            return discard("write_raised:" + exc_sig(e), labels)
        pf = fastparquet.ParquetFile(path)
        kw = {"list": {"categories": ["x"]}, "dict": {"categories": {"x": n}}, "none": {}}[form]
        try:
            claimed = dict(pf._dtypes(kw.get("categories")))
        except Exception as e:
            return viol("metadata_raised|_dtypes|many_categories|" + exc_sig(e), exc_detail(e), labels=labels)
        try:
            out = pf.to_pandas(**kw)
        except Exception as e:
            return viol("read_raised_after_prediction|many_categories|" + exc_sig(e),
                        "dtypes predicted %r for a column of %d labels (categories=%s form), then: %s" % (str(claimed.get("x")), n, form, exc_detail(e)),
                        labels=labels)
        reported = pf.categories.get("x") if isinstance(pf.categories, dict) else None
        if reported is not None and int(reported) < len(out["x"].cat.categories):
            return viol("categories_count|many_categories", "categories reports %r labels, the column read has %d" % (reported, len(out["x"].cat.categories)),
                        labels=labels)
        if norm_dtype(claimed["x"]) != norm_dtype(out["x"].dtype):
            return viol("dtype|many_categories", "dtypes says %s, the read gives %s" % (claimed["x"], out["x"].dtype), labels=labels)
        if out["x"].astype(object).tolist() != df["x"].astype(object).tolist():
            return viol("value|many_categories", "labels read differ from the labels written (%d labels)" % n, labels=labels)
    return ok(True, labels + ["categorical"])


def _foreign_bytes(case):
    from vf.refpq import writer
    plan = copy.deepcopy(case["plan"])
    kind = case.get("pandas_meta", "none")
    if kind != "none":
        cols = []
        for c, node in zip(case["cols"], plan["schema"]):
            pt, nt = KIND_META.get(c["kind"], ("object", "object"))
            has_null = any(v is None for rg in plan["row_groups"] for v in rg["data"].get(c["name"], []))
            if (kind == "pandas_nullable" or has_null) and c["kind"] in ("i8", "i16", "i32", "i64", "u8", "u16", "u32", "u64", "bool") and \
                    node["repetition"] == "OPTIONAL":
                # (an int/bool column that holds nulls can only have come from a pandas extension dtype)
                # arrow records the pandas extension dtype in numpy_type
                nt = {"bool": "boolean"}.get(c["kind"], ("UInt" if c["kind"][0] == "u" else "Int") + c["kind"][1:])
            cmeta = None
            if kind == "pandas_categorical" and c["kind"] == "text":
                # what pyarrow records for a pandas categorical of strings; whether a read can deliver it as such depends
                # on every chunk of the column being dictionary-encoded throughout
                vals = {v for rg in plan["row_groups"] for v in rg["data"].get(c["name"], []) if v is not None}
                # (as many categories as the largest dictionary holds, entries no row refers to included)
                pad = max([((rg.get("chunks") or {}).get(c["name"], {}).get("dict_pad") or {}).get("n", 0) for rg in plan["row_groups"]] or [0])
                pt, nt, cmeta = "categorical", "int8", {"num_categories": max(1, len(vals) + pad), "ordered": False}
            cols.append({"name": c["name"], "field_name": c["name"], "pandas_type": pt, "numpy_type": nt, "metadata": cmeta})
        n = sum(len(next(iter(rg["data"].values()))) if rg["data"] else 0 for rg in plan["row_groups"])
        idx = [{"kind": "range", "name": None, "start": 0, "stop": n, "step": 1}] if kind == "pandas_range_index" else []
        md = {"index_columns": idx, "column_indexes": [{"name": None, "field_name": None, "pandas_type": "unicode", "numpy_type": "object",
                                                         "metadata": {"encoding": "UTF-8"}}],
              "columns": cols, "creator": {"library": "pyarrow", "version": "14.0.1"}, "pandas_version": "2.1.4"}
        plan["kv"] = [["pandas", json.dumps(md)]]
    return writer.write(plans.expand_plan(plan))


def _dict_encoded_text_columns(case):
    """{name: dictionary size} of the text columns whose chunks all consist of dictionary-encoded data pages only."""
    plan = case["plan"]
    out = {}
    for c in case["cols"]:
        if c["kind"] != "text":
            continue
        size, ok_ = 0, True
        for rg in plan["row_groups"]:
            cp = (rg.get("chunks") or {}).get(c["name"]) or {}
            pages = cp.get("pages") or []
            vals = rg["data"].get(c["name"], [])
            if not pages or not vals or any(p.get("encoding") not in ("PLAIN_DICTIONARY", "RLE_DICTIONARY") for p in pages):
                ok_ = False
                break
            size = max(size, len({v for v in vals if v is not None}) + ((cp.get("dict_pad") or {}).get("n", 0)))
        if ok_ and size:
            out[c["name"]] = size
    return out


def norm_dtype(x):
    try:
        if isinstance(x, str) and x == "category":
            return "category"
        if isinstance(x, np.generic):
            return str(np.dtype(type(x)))
        return str(pd.api.types.pandas_dtype(x))
    except Exception:
        return "!" + repr(x)


def run_case(case):
    import fastparquet
    if case.get("src") == "many_categories":
        return _many_categories(case)
    src = case["src"]
    rd = case["read"]
    labels = ["src:" + src, "pandas_nulls:%s" % rd["pandas_nulls"]]
    with common.Scratch() as d:
        if src == "foreign":
            labels.append("meta:" + case.get("pandas_meta", "none"))
            try:
                data = _foreign_bytes(case)
            except Exception as e:
                return discard("plan rejected by the encoder")
            path = os.path.join(d, "f.parquet")
            with open(path, "wb") as f:
                f.write(data)
        else:
            if cases.required_with_missing(case["frame"], case["opts"]):
                return discard("missing category cell in a required column (invalid request, C18)", labels)
            df, path, err = c01.write_case(case, d)
            if err is not None:
                return discard("write_raised", labels)
        try:
            pf = fastparquet.ParquetFile(path, pandas_nulls=rd["pandas_nulls"])
        except Exception as e:
            return discard("open_raised:" + exc_sig(e), labels)
        try:
            claimed_cols = list(pf.columns)
            claimed_cats = dict(pf.cats)
            claimed_categories = dict(pf.categories) if pf.categories else {}
            claimed_index = list(pf._get_index() or [])
            claimed_count = pf.count()
            claimed_rg = [rg.num_rows for rg in pf.row_groups]
            info = pf.info
        except Exception as e:
            return viol("metadata_raised|%s|%s" % (src, exc_sig(e)), exc_detail(e), labels=labels)
        kw = {}
        catarg = None
        if rd.get("categories") and claimed_categories:
            catarg = list(claimed_categories) if rd["categories"] == "list" else dict(claimed_categories)
            kw["categories"] = catarg
        elif rd.get("categories") and src == "foreign" and case.get("pandas_meta", "none") == "none":
            # (with pandas metadata the library refuses categories= for a column the metadata does not call categorical)
            # columns that are not categorical by default but can be asked for as such: text columns of which every chunk
            # is dictionary-encoded throughout
            sizes = _dict_encoded_text_columns(case)
            if sizes:
                catarg = list(sizes) if rd["categories"] == "list" else dict(sizes)
                kw["categories"] = catarg
                labels.append("categories_asked_for_plain_columns")
        if rd.get("index") is False:
            kw["index"] = False
        cols = None
        if rd.get("columns") and claimed_cols:
            cols = sorted({claimed_cols[i % len(claimed_cols)] for i in rd["colpick"]}, key=claimed_cols.index)
            kw["columns"] = list(cols)
            if catarg is not None:
                kw["categories"] = [c for c in catarg if c in cols] if isinstance(catarg, list) else {c: v for c, v in catarg.items() if c in cols}
        try:
            claimed_dtypes = dict(pf._dtypes(kw.get("categories")))
        except Exception as e:
            return viol("metadata_raised|_dtypes|%s|%s" % (src, exc_sig(e)), exc_detail(e), labels=labels)
        if rd.get("dtypes_identity") and cols is None:
            kw["dtypes"] = dict(claimed_dtypes)
        try:
            out = pf.to_pandas(**kw)
        except (NotImplementedError, AssertionError) as e:
            return discard("read_refused:" + exc_sig(e), labels)
        except Exception as e:
            if src == "partitioned" and case["opts"].get("file_scheme") == "drill" and "is not in list" in str(e):
                return discard("drill labels mixing text and numbers (recorded finding C08-drill-mixed-text)", labels)
            # the handle answered every metadata question, then cannot produce the frame it described
            return viol("read_raised_after_prediction|%s|%s" % (src, exc_sig(e)), exc_detail(e), labels=labels)
        optsig = "+".join(sorted(k for k in kw)) or "plain"
        # ---- columns
        got_cols = [str(c) for c in out.columns]
        idx_names = [n for n in out.index.names if n is not None] if not isinstance(out.index, pd.RangeIndex) else []
        if rd.get("index") is False:
            want_cols = (list(cols) if cols is not None else claimed_cols + [c for c in claimed_cats])
        else:
            base = list(cols) if cols is not None else claimed_cols + [c for c in claimed_cats]
            want_cols = [c for c in base if c not in claimed_index]
            if claimed_index and sorted(idx_names) != sorted(n for n in claimed_index if not _auto_name(n)):
                return viol("index|%s|%s" % (src, optsig), "_get_index()=%r but the frame's index is named %r" % (claimed_index, list(out.index.names)),
                            labels=labels)
            if not claimed_index and not isinstance(out.index, pd.RangeIndex):
                return viol("index_unexpected|%s|%s" % (src, optsig), "_get_index() is empty but the frame has index %r" % (list(out.index.names),), labels=labels)
        if cols is None:
            if got_cols != want_cols:
                return viol("columns|%s|%s" % (src, optsig), "columns/cats predict %r, the frame has %r" % (want_cols, got_cols), labels=labels)
        elif sorted(got_cols) != sorted(want_cols):
            return viol("columns_projected|%s|%s" % (src, optsig), "requested %r (+index), the frame has %r" % (want_cols, got_cols), labels=labels)
        # ---- dtypes
        for c in got_cols:
            if c in claimed_cats:
                if str(out[c].dtype) != "category":
                    return viol("partition_not_category|%s" % src, "partition column %r came back as %s" % (c, out[c].dtype), labels=labels)
                continue
            if c not in claimed_dtypes:
                return viol("dtype_missing|%s" % src, "column %r is not in dtypes %r" % (c, list(claimed_dtypes)), labels=labels)
            want = norm_dtype(claimed_dtypes[c])
            got = norm_dtype(out[c].dtype)
            if want != got:
                return viol("dtype|%s|%s->%s|%s" % (src, _fam(want), _fam(got), optsig), "column %r: dtypes says %s, the read gives %s" % (c, want, got),
                            labels=labels)
        # ---- categorical columns
        if isinstance(claimed_categories, dict):
            for c, cnt in claimed_categories.items():
                if c in got_cols and str(out[c].dtype) == "category" and isinstance(cnt, (int, np.integer)) and int(cnt) < len(out[c].cat.categories):
                    return viol("categories_count|%s" % src, "categories[%r]=%r, the column read has %d labels" % (c, cnt, len(out[c].cat.categories)),
                                labels=labels)
        if "categories" not in kw:
            got_cat = {c for c in got_cols if str(out[c].dtype) == "category" and c not in claimed_cats}
            want_cat = {c for c in claimed_categories if c in got_cols}
            if got_cat != want_cat:
                return viol("categories|%s|%s" % (src, optsig), "categories says %r, categorical in the frame: %r" % (sorted(want_cat), sorted(got_cat)),
                            labels=labels)
        # ---- the handle after a read, and a handle given the reported dtypes: both must answer like a fresh handle
        try:
            fresh_pf = fastparquet.ParquetFile(path, pandas_nulls=rd["pandas_nulls"])
            fresh_dt = dict(fresh_pf.dtypes)
            fresh = fresh_pf.to_pandas()
        except Exception as e:
            fresh = None
        if fresh is not None:
            probes_ = [("same_handle_after_a_read", lambda: pf.to_pandas())]
            if src != "partitioned" or True:
                probes_.append(("handle_given_the_reported_dtypes",
                                lambda: fastparquet.ParquetFile(path, pandas_nulls=rd["pandas_nulls"], dtypes=dict(fresh_dt)).to_pandas()))
            for what, fn in probes_:
                try:
                    again = fn()
                except Exception as e:
                    return viol("%s|raised|%s|%s" % (what, src, exc_sig(e)),
                                "a fresh handle reads the file with default options; %s (options of the first read: %s): %s"
                                % (what, optsig, exc_detail(e)), labels=labels)
                if [str(c) for c in again.columns] != [str(c) for c in fresh.columns] or len(again) != len(fresh):
                    return viol("%s|shape|%s" % (what, src), "%s: columns %r x %d rows, a fresh handle gives %r x %d"
                                % (what, list(again.columns), len(again), list(fresh.columns), len(fresh)), labels=labels)
                for c in fresh.columns:
                    a, b = norm_dtype(again[c].dtype), norm_dtype(fresh[c].dtype)
                    if a != b:
                        return viol("%s|dtype|%s|%s->%s" % (what, src, _fam(b), _fam(a)),
                                    "%s (options of the first read: %s): column %r is %s, a fresh handle reads %s" % (what, optsig, c, a, b),
                                    labels=labels)
        # ---- counts
        if claimed_count != len(out) or info.get("rows") != len(out) or sum(claimed_rg) != len(out):
            return viol("count|%s" % src, "count()=%r info.rows=%r sum(num_rows)=%r, rows read %d" % (claimed_count, info.get("rows"), sum(claimed_rg), len(out)),
                        labels=labels)
        if info.get("columns") != claimed_cols or info.get("row_groups") != len(claimed_rg) or info.get("partitions") != list(claimed_cats):
            return viol("info|%s" % src, "info=%r vs columns=%r, row groups=%d, cats=%r" % (info, claimed_cols, len(claimed_rg), list(claimed_cats)), labels=labels)
        try:
            lens = [len(x) for x in pf.iter_row_groups()]
        except Exception as e:
            return discard("iter_raised:" + exc_sig(e), labels)
        if lens != [n for n in claimed_rg if n]:
            return viol("rg_num_rows|%s" % src, "row groups claim %r rows, iteration yields %r" % (claimed_rg, lens), labels=labels)
        # a handle restricted to some row groups answers for those row groups only
        if len(claimed_rg) >= 2:
            i = rd["colpick"][0] % len(claimed_rg)
            try:
                sub = pf[i]
                subdf = sub.to_pandas(**kw)
                sc, si, sl = sub.count(), sub.info.get("rows"), len(subdf)
            except Exception as e:
                return discard("slice_read_raised:" + exc_sig(e), labels)
            if not (sc == si == sl == claimed_rg[i]):
                return viol("slice_count|%s" % src, "pf[%d]: count()=%r info.rows=%r, rows read %d, row group claims %d" % (i, sc, si, sl, claimed_rg[i]), labels=labels)
            # ... and the dtypes the handle reported hold for every part of the dataset read through it
            for c in [str(x) for x in subdf.columns]:
                if c in claimed_cats or c not in claimed_dtypes:
                    continue
                want, got = norm_dtype(claimed_dtypes[c]), norm_dtype(subdf[c].dtype)
                if want != got:
                    return viol("slice_dtype|%s|%s->%s" % (src, _fam(want), _fam(got)),
                                "column %r: the handle's dtypes say %s, pf[%d].to_pandas() gives %s" % (c, want, i, got), labels=labels)
            labels.append("slice_checked")
        # partition values known from metadata cover the labels read
        for c, vals in claimed_cats.items():
            if c in got_cols and len(out):
                labs = out[c].dropna().unique().tolist()
                missing = [l for l in labs if not any(_same_label(l, v) for v in vals)]
                if missing:
                    return viol("cats_values|%s" % src, "cats[%r]=%r does not cover the labels read %r" % (c, vals, missing), labels=labels)
    nullable_hit = any(str(dt) in ("Int8", "Int16", "Int32", "Int64", "UInt8", "UInt16", "UInt32", "UInt64", "boolean") or (str(dt) == "float64" and False)
                       for dt in out.dtypes)
    nt = bool(nullable_hit or claimed_categories or claimed_cats or (src == "foreign" and case.get("pandas_meta") == "none"))
    return ok(nt, labels + (["nullable_result"] if nullable_hit else []) + (["categorical"] if claimed_categories else []) +
              (["partitions"] if claimed_cats else []) + ["opts:" + optsig])


def _same_label(a, b):
    try:
        return bool(a == b) and (isinstance(a, str) == isinstance(b, str))
    except Exception:
        return False


def _auto_name(n):
    import re
    return bool(re.match(r"__index_level_\d+__", n))


def _fam(s):
    for k in ("datetime64", "timedelta64", "category", "object", "float", "Int", "UInt", "int", "uint", "bool"):
        if s.startswith(k):
            return k
    return s


def shrink_moves(case):
    if case.get("src") == "many_categories":
        return
    rd = case["read"]
    for k, v in (("columns", False), ("categories", None), ("index", "default"), ("dtypes_identity", False), ("pandas_nulls", True)):
        if rd.get(k) != v:
            c = copy.deepcopy(case)
            c["read"][k] = v
            yield c
    if case["src"] == "foreign":
        from vf.props import c03
        if case.get("pandas_meta") != "none":
            c = copy.deepcopy(case)
            c["pandas_meta"] = "none"
            yield c
        for c in c03.shrink_moves(case):
            yield c
    else:
        pn = set(case.get("partition_on") or [])
        for c in shrinkers.frame_opts_moves({k: v for k, v in case.items() if k in ("frame", "opts")}):
            names = {x["name"] for x in c["frame"]["cols"]}
            if not pn <= names or (pn and (c["opts"].get("file_scheme") == "simple" or not (names - pn))):
                continue
            c2 = copy.deepcopy(case)
            c2["frame"], c2["opts"] = c["frame"], c["opts"]
            yield c2


def abbreviate(case):
    if case["src"] == "many_categories":
        return case
    if case["src"] == "foreign":
        from vf.props import c03
        a = c03.abbreviate(case)
        a.update(src="foreign", pandas_meta=case.get("pandas_meta"), read=case["read"])
        return a
    a = shrinkers.abbreviate_frame_case({k: v for k, v in case.items() if k in ("frame", "opts", "partition_on")})
    a.update(src=case["src"], read=case["read"])
    return a
