"""C02 - written files are valid Parquet that an independent reader decodes identically."""
import json
import os

from vf import cases, common, shrinkers
from vf.cases import MISSING
from vf.gen import frames
from vf.props import c01
from vf.runner import discard, exc_detail, exc_sig, ok, viol

ID = "C02"
LEVEL = "exploration"
RULE = ("The C01 generator (independent seed stream) draws (frame x write options); every file under the target path - the single "
        "file, or each part file, _metadata (checked against its parts) and _common_metadata - is decoded by refpq, an "
        "implementation written only from the format specification, in strict mode: magic, footer length, every thrift field "
        "id and compact wire type against the vendored IDL, page tiling, compressed/uncompressed sizes, value/row/null counts, "
        "encodings and encoding_stats, codec, dictionary/data offsets, v1/v2 level framing, dictionary index range, UTF-8. "
        "The decoded table must equal the table computed from the case, including which cells are NULL and which are NaN/NaT "
        "under the column's nullability, and the physical/logical type must be the one the dtype maps to. Non-trivial: as "
        "C01 (write succeeded, n >= 1 and nulls / >= 2 row groups / small pages / codec / v2 / >= 2 kinds / written index).")
ASSUMPTIONS = [
    "refpq is the oracle; it is self-validated against third-party files (Impala, Spark, Arrow fixtures) in setup and its selftest",
    "tolerated: trailing padding after page values, truncated padding of a final bit-packed group, level encodings (RLE) not listed "
    "in ColumnMetaData.encodings (most writers omit them); statistics are C04's subject and not judged here",
    "a categorical column holding missing cells written as REQUIRED is an invalid request the library fails to reject (C18): discarded here",
]
MANIFEST = {
    "category": "exploration",
    "technique": "differential property-based testing: files written from generated frames/options are decoded by an independent specification-level reader with strict structural validation",
    "text": "Generated (frame, option) pairs; every byte of every produced file is validated and decoded by refpq (strict thrift "
            "conformance against the IDL, page/chunk accounting, level framing) and the decoded logical table - with NULL and "
            "NaN kept apart - must equal the input.",
    "note": "Trusted base: vf/refpq (independent implementation, validated against third-party fixtures), cramjam for ZSTD/BROTLI, "
            "zlib. Symmetric writer/reader errors of fastparquet cannot hide because fastparquet's reader is not involved.",
}
BUDGET = {"quick": {"shards": 8, "examples": 600, "wall": 110},
          "thorough": {"shards": 16, "examples": 5000, "wall": 1500}}

IGNORED_KINDS = {"encodings_list_levels", "stats_bounds", "stats_decode", "unsupported"}


def strategy(tier):
    return frames.frame_and_options(thorough=(tier == "thorough"))


def expected_type(col, opts):
    """(physical, set of acceptable annotations) for a column kind under the options."""
    k = col["kind"]
    if k == "bool":
        return "BOOLEAN", {None}
    if k in ("int", "nullable"):
        sub = col["sub"].lower()
        if sub == "boolean":
            return "BOOLEAN", {None}
        bits = int(sub.replace("uint", "").replace("int", ""))
        signed = not sub.startswith("u")
        phys = "INT64" if bits == 64 else "INT32"
        ann = {("INT", bits, signed)}
        if signed and bits in (32, 64):
            ann.add(None)
        return phys, ann
    if k == "float":
        return ("FLOAT" if col["sub"] == "float32" else "DOUBLE"), {None}
    if k == "text":
        return "BYTE_ARRAY", {("STRING",)}
    if k == "bytes":
        return "BYTE_ARRAY", {None}
    if k == "json":
        return "BYTE_ARRAY", {("JSON",)}
    if k == "datetime":
        if opts.get("times") == "int96":
            return "INT96", {None}
        unit = {"s": "MILLIS", "ms": "MILLIS", "us": "MICROS", "ns": "NANOS"}[col["unit"]]
        return "INT64", {("TIMESTAMP", unit, bool(col.get("tz")))}
    if k == "timedelta":
        return "INT64", {("TIME", "MICROS", True), ("TIME", "MICROS", False)}
    if k == "pyobj":
        return {"int": ("INT64", {None, ("INT", 64, True)}), "bool": ("BOOLEAN", {None}), "float": ("DOUBLE", {None})}[col["sub"]]
    if k == "category":
        lk = col["labels"]
        if lk == "text":
            return "BYTE_ARRAY", {("STRING",)}
        if lk == "int":
            return "INT64", {None, ("INT", 64, True)}
        if lk == "bool":
            return "BOOLEAN", {None}
        return "DOUBLE", {None}
    raise ValueError(k)


def expected_slots(col, n, opts, optional):
    """Expected decoded logical values: None for a definition-level NULL; in a REQUIRED column a
    missing float is a stored NaN and a missing time the NaT sentinel."""
    k = col["kind"]
    out = []
    for v in cases.raw_values(col, n):
        if v is MISSING:
            if optional:
                out.append(None)
            elif k == "float" or (k == "pyobj" and col["sub"] == "float"):
                out.append("NaN")
            elif k in ("datetime", "timedelta"):
                out.append("NaT")
            elif k == "json":
                out.append(("json", "null"))      # a required JSON cell holds the JSON text null
            else:
                out.append(("!missing-in-required",))
            continue
        if k == "bool":
            out.append(bool(v))
        elif k in ("int",):
            out.append(int(v))
        elif k == "nullable":
            out.append(bool(v) if col["sub"] == "boolean" else int(v))
        elif k == "pyobj":
            out.append(float(v).hex() if col["sub"] == "float" else bool(v) if col["sub"] == "bool" else int(v))
        elif k == "float":
            import numpy as np
            f = float(np.float32(v)) if col["sub"] == "float32" else float(v)
            out.append("NaN" if f != f else f.hex())
        elif k == "text":
            out.append(str(v))
        elif k == "bytes":
            out.append(bytes.fromhex(v))
        elif k == "json":
            out.append(("json", json.dumps(v, sort_keys=True)))
        elif k == "datetime":
            if opts.get("times") == "int96":
                out.append(int(v) * cases.UNIT_NS[col["unit"]])
            else:
                out.append(int(v) * (1000 if col["unit"] == "s" else 1))
        elif k == "timedelta":
            ns = int(v) * cases.UNIT_NS[col["unit"]]
            out.append(ns // 1000)
        elif k == "category":
            lk = col["labels"]
            out.append(str(v) if lk == "text" else int(v) if lk == "int" else bool(v) if lk == "bool" else float(v).hex())
    return out


def got_slots(values, col, opts):
    k = col["kind"]
    nat = -(2 ** 63)
    out = []
    for v in values:
        if v is None:
            out.append(None)
        elif isinstance(v, float):
            out.append("NaN" if v != v else v.hex())
        elif k == "json" and isinstance(v, str):
            try:
                out.append(("json", json.dumps(json.loads(v), sort_keys=True)))
            except ValueError:
                out.append(("!badjson", v))
        elif k in ("datetime", "timedelta") and isinstance(v, int) and not isinstance(v, bool):
            if opts.get("times") == "int96" and k == "datetime":
                out.append(v)          # ns since epoch; a NaT cannot be told apart in INT96
            else:
                out.append("NaT" if v == nat else v)
        elif k == "category" and col["labels"] == "float" and isinstance(v, float):
            out.append(v.hex())
        else:
            out.append(v)
    return out


def first_diff(exp, got):
    if len(exp) != len(got):
        return "length %d != %d" % (len(got), len(exp))
    for i, (e, g) in enumerate(zip(exp, got)):
        if type(e) is not type(g) or e != g:
            return "row %d: expected %r got %r" % (i, e, g)
    return None


def index_name(fr):
    ic = fr.get("index")
    if ic is None:
        return None
    if ic["name"] is not None:
        return ic["name"]
    return "level_0" if any(c["name"] == "index" for c in fr["cols"]) else "index"


def columns_written(fr, opts):
    """[(file column name, column spec)] in file order."""
    wi = opts.get("write_index")
    ic = fr.get("index")
    cols = []
    if ic is not None and (wi is True or wi is None):
        cols.append((index_name(fr), ic))
    elif ic is None and wi is True:
        nm = "level_0" if any(c["name"] == "index" for c in fr["cols"]) else "index"
        cols.append((nm, {"name": nm, "kind": "int", "sub": "int64", "pool": list(range(max(1, fr["n"]))),
                               "idx": list(range(max(1, fr["n"]))), "null": {"pat": "none", "mask": []}}))
    return cols + [(c["name"], c) for c in fr["cols"]]


def check_file(data, loader, labels):
    from vf.refpq import reader
    try:
        pd_ = reader.read(data, part_loader=loader)
    except Exception as e:
        return None, ("oracle_raised|" + type(e).__name__, exc_detail(e))
    bad = [i for i in pd_.issues if i.kind not in IGNORED_KINDS]
    if bad:
        i = bad[0]
        det = i.detail
        sub = ""
        if i.kind == "thrift":
            sub = ":" + det.split()[0] + ":" + (det.split()[1] if len(det.split()) > 1 else "")
        return pd_, ("struct|%s%s" % (i.kind, sub), "%s at %s: %s (+%d more)" % (i.kind, i.where, det, len(bad) - 1))
    for t, c in pd_.tolerances.items():
        if c:
            labels.append("tolerance:" + t)
    return pd_, None


def run_case(case):
    fr, opts = case["frame"], case["opts"]
    labels = c01.features(case)
    if cases.required_with_missing(fr, opts):
        # a missing category cell in a column declared non-nullable: the write must refuse (C18); if it does not,
        # the file it makes is examined like any other (a -1 dictionary index is not valid Parquet)
        labels.append("required_categorical_with_missing_cell")
    scheme = opts.get("file_scheme", "simple")
    dpv = opts.get("dpv", 1)
    with common.Scratch() as d:
        df, path, err = c01.write_case(case, d)
        if err is not None:
            return ok(False, labels + ["write_raised"])
        if scheme == "simple":
            with open(path, "rb") as f:
                data = f.read()
            pd_, bad = check_file(data, None, labels)
            if bad:
                return viol("%s|dpv%d|simple" % (bad[0], dpv), bad[1], labels=labels)
            tables = [pd_]
        else:
            def loader(rel):
                with open(os.path.join(path, rel), "rb") as f:
                    return f.read()
            tables = []
            names = sorted(os.listdir(path))
            for fn in names:
                full = os.path.join(path, fn)
                if os.path.isdir(full):
                    continue
                with open(full, "rb") as f:
                    data = f.read()
                pd_, bad = check_file(data, loader if fn == "_metadata" else None, labels)
                if bad:
                    kind = "_metadata" if fn == "_metadata" else "_common_metadata" if fn == "_common_metadata" else "part"
                    return viol("%s|dpv%d|%s" % (bad[0], dpv, kind), "%s: %s" % (fn, bad[1]), labels=labels)
                if fn == "_metadata":
                    tables = [pd_]
            if not tables:
                return viol("no_metadata_file", "no _metadata among %r" % names, labels=labels)
        pd_ = tables[0]
        n = fr["n"]
        want = columns_written(fr, opts)
        got_names = [l.name for l in pd_.leaves]
        if got_names != [w[0] for w in want]:
            return viol("schema|names", "file columns %r != %r" % (got_names, [w[0] for w in want]), labels=labels)
        if pd_.num_rows != n:
            return viol("num_rows_total", "FileMetaData.num_rows=%r, frame has %d" % (pd_.num_rows, n), labels=labels)
        try:
            tab = pd_.table()
        except Exception as e:
            return viol("oracle_table_raised|" + type(e).__name__, exc_detail(e), labels=labels)
        for (name, col), leaf in zip(want, pd_.leaves):
            tag = c01.col_tag(col)
            phys, anns = expected_type(col, opts)
            if col["kind"] in ("text", "bytes", "json") and col.get("sub") != "str" and \
                    all(v is MISSING for v in cases.raw_values(col, n)):
                # nothing to infer the object encoding from: any byte-array annotation is right
                anns = {None, ("STRING",), ("JSON",)}
            oe = opts.get("object_encoding", "infer")
            oe = oe.get(name, "infer") if isinstance(oe, dict) else oe
            if col["kind"] == "pyobj" and oe == "infer" and all(v is MISSING for v in cases.raw_values(col, n)):
                # nothing to infer the object encoding from: the library falls back to a text column
                phys, anns = leaf.physical, {leaf.annotation}
            if leaf.physical != phys or leaf.annotation not in anns:
                return viol("schema|type|%s" % tag, "column %r stored as %s %r, expected %s %r" % (name, leaf.physical, leaf.annotation, phys, sorted(map(str, anns))),
                            labels=labels)
            # (a text index becomes a `str` column through reset_index on pandas 3: not "object")
            is_obj = col["kind"] in ("text", "bytes", "json", "pyobj") and col.get("sub") != "str" and col is not fr.get("index")
            optional = cases.col_optional(opts, name, is_obj, cat_missing=col["kind"] == "category" and cases.has_missing(col, n))
            if (leaf.max_def == 1) != optional and n > 0:
                return viol("schema|repetition|%s" % tag, "column %r max_def=%d but has_nulls=%r implies optional=%r" % (name, leaf.max_def, opts.get("has_nulls"), optional),
                            labels=labels)
            exp = expected_slots(col, n, opts, leaf.max_def == 1)
            got = got_slots(tab[name], col, opts)
            if opts.get("times") == "int96" and col["kind"] == "datetime":
                nat96 = -(2 ** 63)
                exp = [nat96 if e == "NaT" else e for e in exp]
            dd = first_diff(exp, got)
            if dd:
                aspect = "null_vs_nan" if ("None" in dd or "NaN" in dd or "NaT" in dd) else "value"
                return viol("decoded|%s|%s|dpv%d" % (aspect, tag, dpv), "column %r: %s" % (name, dd), labels=labels)
    return ok(c01.nontrivial(case), labels)


def shrink_moves(case):
    return shrinkers.frame_opts_moves(case)


def abbreviate(case):
    return shrinkers.abbreviate_frame_case(case)
