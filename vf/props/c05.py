"""C05 - filtered reads never lose a qualifying row (row-group pruning is sound)."""
import itertools

from vf import common
from vf.model import filters as mf, frames_eq
from vf.props import filt_common as fc
from vf.runner import discard, exc_detail, exc_sig, ok, viol

ID = "C05"
LEVEL = "exploration"
RULE = ("(a) Hypothesis draws a dataset (int/float/text/datetime/category/nullable/bool columns, nulls, NaN, all-null chunks, "
        "row-group splits, stats settings, optional hive/drill partitions; a unique _rid column identifies rows) and a filter "
        "program over {==,=,!=,<,<=,>,>=,in,not in} as a flat AND list or OR of AND lists, constants drawn from the data, "
        "its neighbours, outside the range, or of a comparable other type. An independent three-valued evaluator decides "
        "which rows MUST qualify; every such row must be returned by to_pandas(filters=), the result must be the in-order "
        "concatenation of whole row groups with content equal to the full read, and count()/iter_row_groups()/"
        "filter_row_groups() must agree. (b) exhaustive lattice for filter_val/filter_in/filter_not_in over vmin<=vmax in "
        "[0,6] or None, constants in [-1,7], value lists of size <= 3: 'exclude' only if no value in the range satisfies the "
        "operator. Non-trivial (a): >= 2 row groups and (a group pruned and a group kept, or a constant equal to a present "
        "value); (b) every lattice point.")
ASSUMPTIONS = [
    "an exception raised while a filter is evaluated is a loud refusal, not a lost row: such cases are discarded and counted",
    "a missing operand never obliges a row to be returned; incomparable operand classes oblige nothing",
    "conditions on partition columns are generated for hive datasets only (drill values are coerced from text, documented)",
    "completeness of pruning is not demanded",
]
MANIFEST = {
    "category": "exploration",
    "technique": "property-based testing with an independent three-valued filter evaluator over row ids + exhaustive enumeration of the min/max pruning primitives",
    "text": "Generated datasets x generated filter programs; soundness oracle = every row the independent evaluator says must "
            "qualify is present, result is whole row groups in order, all filter entry points agree on the count. The three "
            "pruning primitives are enumerated exhaustively on a small integer lattice against a brute-force range oracle.",
    "note": "Trusted: the model evaluator (vf/model/filters.py), per-row-group reads of the unfiltered data to attribute rows "
            "to row groups. Refusals (exceptions) are not violations.",
}
BUDGET = {"quick": {"shards": 8, "examples": 250, "wall": 110},
          "thorough": {"shards": 16, "examples": 6000, "wall": 1500}}

OPS = ["==", "=", "!=", "<", "<=", ">", ">="]
RANGE = [None] + list(range(0, 7))
CONSTS = list(range(-1, 8))


def strategy(tier):
    return fc.strategy_(tier == "thorough", row_level=False)


def enumerate_cases(tier):
    for vmin in RANGE:
        for vmax in RANGE:
            if vmin is not None and vmax is not None and vmin > vmax:
                continue
            for op in OPS:
                for c in CONSTS:
                    yield {"unit": [op, c, vmin, vmax]}
            for k in range(0, 4):
                for vals in itertools.combinations(CONSTS, k):
                    yield {"unit": ["in", list(vals), vmin, vmax]}
                    yield {"unit": ["not in", list(vals), vmin, vmax]}


def _unit(case):
    from fastparquet import api
    op, val, vmin, vmax = case["unit"]
    lo = -3 if vmin is None else vmin
    hi = 10 if vmax is None else vmax
    def sat(v):
        if op == "in":
            return v in val
        if op == "not in":
            return v not in val
        return {"==": v == val, "=": v == val, "!=": v != val, "<": v < val, "<=": v <= val, ">": v > val, ">=": v >= val}[op]
    possible = any(sat(v) for v in range(lo, hi + 1))
    try:
        got = bool(api.filter_val(op, val, vmin, vmax))
    except Exception as e:
        return viol("unit_raised|%s|%s" % (op, exc_sig(e)), exc_detail(e))
    if got and possible:
        shape = "point" if (vmin is not None and vmin == vmax) else "open" if (vmin is None or vmax is None) else "range"
        return viol("unit_unsound|%s|%s" % (op, shape),
                    "filter_val(%r, %r, vmin=%r, vmax=%r) says exclude, but a value in the range satisfies it" % (op, val, vmin, vmax))
    return ok(True, ["unit", "unit:" + op, "unit_excluded" if got else "unit_kept"])


def run_case(case):
    if "unit" in case:
        return _unit(case)
    from fastparquet import api
    labels = fc.labels_of(case)
    with common.Scratch() as d:
        p = fc.prepare(case, d)
        if isinstance(p, tuple):
            return discard(p[1], labels)
        F = p.api_filters
        try:
            res = p.pf.to_pandas(filters=F)
        except Exception as e:
            if fc.is_refusal(e):
                return discard("filter_refused:%s:%s" % (type(e).__name__, "+".join(sorted(fc.const_classes(case)))), labels)
            return viol("read_raised|" + exc_sig(e), exc_detail(e), labels=labels)
        if "_rid" not in res.columns:
            return viol("no_rid", "filtered result lacks the _rid column: %r" % list(res.columns), labels=labels)
        rr = [int(x) for x in res["_rid"].tolist()]
        kept, pos = [], 0
        for gi, g in enumerate(p.groups):
            if g and rr[pos:pos + len(g)] == g:
                kept.append(gi)
                pos += len(g)
        if pos != len(rr):
            return viol("not_whole_groups", "result row ids %r are not an in-order concatenation of whole row groups %r"
                        % (rr[:30], p.groups[:10]), labels=labels)
        # content of the returned rows equals the full read
        idx = {r: i for i, r in enumerate(p.rids)}
        exp = p.full.iloc[[idx[r] for r in rr]].reset_index(drop=True)
        pc = set(p.pf.cats)
        hard = [c for c in exp.columns if c not in pc]
        r = frames_eq.frames_equal(res[hard], exp[hard], check_categories=bool(len(exp)))
        if r is None and pc:
            r = frames_eq.frames_equal(res[[c for c in exp.columns if c in pc]], exp[[c for c in exp.columns if c in pc]],
                                       check_dtype=False, check_categories=False, loose_numbers=True)
        if r:
            return viol("content|" + r[0], r[1], labels=labels)
        # soundness
        keptset = set(kept)
        for gi, g in enumerate(p.groups):
            if gi in keptset:
                continue
            must = [x for x in g if p.verdict[x] == mf.T]
            if must:
                return viol("lost|" + _why(case, p, must[0]) + fc.notin_bound(case, p, g), "row group %d (row ids %r) was pruned although row %d must qualify; "
                            "filters=%r" % (gi, g[:20], must[0], F), labels=labels)
        # the other entry points agree
        try:
            cnt = p.pf.count(filters=F)
            if cnt != len(rr):
                return viol("count_disagrees", "count(filters)=%r but to_pandas(filters) returned %d rows" % (cnt, len(rr)), labels=labels)
            rgs = api.filter_row_groups(p.pf, F)
            if sum(rg.num_rows for rg in rgs) != len(rr):
                return viol("filter_row_groups_disagrees", "filter_row_groups selects %d rows, to_pandas(filters) %d"
                            % (sum(rg.num_rows for rg in rgs), len(rr)), labels=labels)
            it = [int(x) for piece in p.pf.iter_row_groups(filters=F) for x in piece["_rid"].tolist()]
            if it != rr:
                return viol("iter_disagrees", "iter_row_groups(filters) rows %r vs to_pandas(filters) %r" % (it[:20], rr[:20]), labels=labels)
        except Exception as e:
            return viol("entrypoint_raised|" + exc_sig(e), exc_detail(e), labels=labels)
        nonempty = [gi for gi, g in enumerate(p.groups) if g]
        pruned = len(kept) < len(nonempty)
        eqbound = any(v == mf.T for v in p.verdict.values())
        nt = len(nonempty) >= 2 and ((pruned and kept) or eqbound)
        labels += (["pruned_some"] if pruned and kept else []) + (["pruned_all"] if not kept else []) + \
                  (["kept_all"] if not pruned else []) + (["has_must_rows"] if eqbound else [])
    return ok(nt, labels)


def _why(case, p, rid):
    """Signature features of the first AND group that is true for the lost row."""
    fr = case["frame"]
    cols = {c["name"]: c for c in fr["cols"]}
    pn = set(case.get("partition_on") or [])
    cells = {}
    from vf.gen import filters as gf
    for g, gm in zip(case["filters"]["groups"], p.groups_model):
        row = {}
        for c in g:
            if c["col"] not in cells:
                cells[c["col"]] = gf.cell_values(cols[c["col"]], fr["n"])
            row[c["col"]] = cells[c["col"]][rid]
        if mf.conj([mf.cond(op, row[col], val) for col, op, val in gm]) == mf.T:
            return "+".join(sorted({"%s:%s%s" % (c["op"], cols[c["col"]]["kind"], ":part" if c["col"] in pn else "") for c in g}))
    return "?"


def shrink_moves(case):
    if "unit" in case:
        return iter(())
    return fc.shrink_moves(case)


def abbreviate(case):
    from vf import shrinkers
    return case if "unit" in case else shrinkers.abbreviate_frame_case(case)
