"""C07 - append adds rows at the end and leaves existing data untouched."""
import copy
import hashlib
import os

import numpy as np
import pandas as pd
from hypothesis import strategies as st

from vf import cases, common, shrinkers
from vf.cases import MISSING
from vf.gen import datasets, frames
from vf.model import table
from vf.runner import discard, exc_detail, exc_sig, ok, viol

ID = "C07"
LEVEL = "exploration"
RULE = ("Hypothesis draws a history: create(frame, scheme simple|hive|drill, optional partition_on, optional written index, "
        "write options) followed by 1-4 appends of schema-compatible frames (same names/dtypes by construction; fresh values, "
        "nulls, row counts incl. 0, categoricals with different and differently ordered label sets), each with its own "
        "row_group_offsets/compression, through write(append=True) or ParquetFile.write_row_groups. After every append a fresh "
        "handle must read the concatenation of all batches in order (a unique _rid column aligns rows; partitioned: multiset "
        "plus increasing order within a partition), and byte invariants must hold: single file - the prefix before the old "
        "footer is unchanged; multi-file - every pre-existing data file keeps bytes, size, inode and mtime, none vanishes. "
        "Non-trivial: >= 1 append with >= 1 row after a create with >= 1 row.")
ASSUMPTIONS = [
    "an append that raises ends the history (what a failed append leaves behind is C18's subject); counted per signature",
    "rows with null partition keys are dropped (documented)",
    "categorical columns are compared by per-row label; the category list of the result may be any superset",
]
MANIFEST = {
    "category": "exploration",
    "technique": "model-based property testing of generated create/append histories (concatenation model + byte/inode invariants on pre-existing files)",
    "text": "Generated histories of a create and up to four appends over all dtypes, schemes and partitionings; after every "
            "step the dataset read from a fresh handle must equal the concatenation model, and no byte of previously written "
            "row groups / data files may change.",
    "note": "Trusted: os.stat / file bytes for the invariants; the expected-table model of C01. Histories are generated as one "
            "composite value (operation list), not through RuleBasedStateMachine, so that a case is plain JSON and replays "
            "without Hypothesis.",
}
BUDGET = {"quick": {"shards": 8, "examples": 250, "wall": 110},
          "thorough": {"shards": 16, "examples": 2500, "wall": 1500}}


@st.composite
def strategy_(draw, thorough):
    base = draw(datasets.dataset(thorough=thorough, partition_prob=3, min_rows=draw(st.sampled_from([0, 1, 1, 2]))))
    fr0, opts = base["frame"], base["opts"]
    frames.pin_object_schema(fr0)
    if draw(st.integers(0, 3)) > 0:
        opts["has_nulls"] = True      # later batches may hold nulls where the first does not
    pn = list(base.get("partition_on") or [])
    nb = draw(st.integers(1, 4))
    batches = [fr0]
    # categorical batches with *different* category lists hit a recorded finding
    # (C07-categorical-dictionaries); most histories keep the lists equal to search past it
    cat_mode = draw(st.sampled_from(["same", "same", "same", "extend", "extend", "different"]))
    same_cats = cat_mode != "different"
    prev = fr0
    for _ in range(nb):
        vfr = {"n": 0, "cols": [c for c in prev["cols"] if c["name"] not in pn], "index": fr0.get("index")}
        # "extend": each batch lists the categories of the batch before it and some more (a growing vocabulary; the
        # label count may cross the width of the codes: 127, 32767)
        ext = draw(st.sampled_from([0, 1, 3, 130, 300])) if cat_mode == "extend" else None
        nf = draw(frames.compatible_frame(vfr, thorough=thorough, same_categories=same_cats, extend_categories=ext))
        cols = []
        it = iter(nf["cols"])
        for c in fr0["cols"]:
            if c["name"] in pn:
                pc = copy.deepcopy(c)
                pc["idx"] = draw(st.lists(st.integers(0, 5), min_size=1, max_size=12))
                cols.append(pc)
            else:
                cols.append(next(it))
        nf["cols"] = cols
        batches.append(nf)
        if cat_mode == "extend":
            prev = nf
    aopts = []
    for b in batches[1:]:
        aopts.append({"rgo": draw(frames.row_group_offsets(b["n"])),
                      "compression": draw(st.sampled_from(frames.CODECS)),
                      "via": draw(st.sampled_from(["write", "write", "write_row_groups"]))})
    for a in aopts:
        if draw(st.integers(0, 3)) == 0:
            # the same columns in another order (columns are matched by name)
            a["col_order"] = draw(st.permutations(list(range(len(fr0["cols"])))))
    if opts.get("write_index") is False and fr0.get("index") is None:
        # appended frames whose (unwritten) row labels repeat or are out of order, e.g. the result of a concat
        for a in aopts:
            if draw(st.integers(0, 2)) == 0:
                a["row_labels"] = draw(st.lists(st.integers(0, 3), min_size=1, max_size=6))
    keep = draw(st.booleans())
    if keep and len(aopts) >= 2 and draw(st.booleans()):
        for a in aopts:
            a["via"] = "write_row_groups"
    return {"batches": batches, "create_opts": opts, "append_opts": aopts, "partition_on": pn, "keep_handle": keep}


def strategy(tier):
    return strategy_(tier == "thorough")


def _snapshot(path, single):
    """State of pre-existing data: (prefix bytes | {relpath: (sha, size, ino, mtime_ns)})."""
    if single:
        with open(path, "rb") as f:
            data = f.read()
        flen = int.from_bytes(data[-8:-4], "little")
        return data[: len(data) - 8 - flen]
    out = {}
    for root, _, fns in os.walk(path):
        for fn in fns:
            if fn.endswith(".parquet"):
                p = os.path.join(root, fn)
                stt = os.stat(p)
                with open(p, "rb") as f:
                    h = hashlib.sha256(f.read()).hexdigest()
                out[os.path.relpath(p, path)] = (h, stt.st_size, stt.st_ino, stt.st_mtime_ns)
    return out


def _check_snapshot(before, path, single):
    if single:
        with open(path, "rb") as f:
            data = f.read()
        if data[: len(before)] != before:
            k = next((i for i in range(min(len(before), len(data))) if data[i] != before[i]), min(len(before), len(data)))
            return ("prefix_changed", "bytes of existing row groups changed at offset %d (old data region %d bytes, file now %d)"
                    % (k, len(before), len(data)))
        return None
    after = _snapshot(path, False)
    for rel, st0 in before.items():
        if rel not in after:
            return ("file_vanished", "data file %r vanished or was renamed" % rel)
        if after[rel][0] != st0[0] or after[rel][1] != st0[1]:
            return ("file_rewritten", "data file %r changed content (size %d -> %d)" % (rel, st0[1], after[rel][1]))
        if after[rel][2] != st0[2] or after[rel][3] != st0[3]:
            return ("file_touched", "data file %r was re-created or re-written in place (inode/mtime changed)" % rel)
    return None


def run_case(case):
    import fastparquet
    batches, copts, pn = case["batches"], case["create_opts"], list(case["partition_on"])
    scheme = copts.get("file_scheme", "simple")
    single = scheme == "simple"
    fr0 = batches[0]
    colspec = {c["name"]: c for c in fr0["cols"]}
    vnames = [c["name"] for c in fr0["cols"] if c["name"] not in pn]
    labels = ["scheme:" + scheme, "appends:%d" % (len(batches) - 1)] + (["partitioned"] if pn else []) + \
             (["index"] if fr0.get("index") else [])
    if any(c["kind"] == "category" for c in fr0["cols"] if c["name"] not in pn):
        labels.append("categorical")
    if cases.required_with_missing(fr0, copts) or any(cases.required_with_missing(b, copts) for b in batches[1:]):
        return discard("missing category cell in a required column (invalid file, C18)", labels)
    with common.Scratch() as d:
        path = os.path.join(d, "t.parq" if single else "ds")
        exp = {}          # rid -> {col: cell}
        order = []        # rids in expected order (non partitioned) / (key, rid)
        base = 0
        for k, fr in enumerate(batches):
            df = cases.build_frame(fr)
            df["_rid"] = np.arange(base, base + fr["n"], dtype="int64")
            cells = {c["name"]: cases.expected_column(c, fr["n"]) for c in fr["cols"]}
            icells = cases.expected_column(fr["index"], fr["n"]) if fr.get("index") else None
            rows_k = []
            for i in range(fr["n"]):
                key = tuple(cells[p][i] for p in pn)
                if any(x is MISSING for x in key):
                    continue
                rid = base + i
                exp[rid] = ({v: cells[v][i] for v in vnames}, key, icells[i] if icells else None)
                rows_k.append(rid)
            base += fr["n"]
            if k == 0:
                held = None
                kw = cases.write_kwargs(copts)
                if pn:
                    kw["partition_on"] = pn
                try:
                    with cases.writer_globals(copts):
                        fastparquet.write(path, df, **kw)
                except Exception as e:
                    return discard("create_raised", labels)
                order.extend(rows_k)
                pre_ok = True
            else:
                ao = case["append_opts"][k - 1]
                if ao.get("col_order") and len(ao["col_order"]) == len(fr["cols"]):
                    names_ = [c["name"] for c in fr["cols"]]
                    df = df[[names_[i] for i in ao["col_order"]] + [c for c in df.columns if c not in names_]]
                    labels.append("append_with_permuted_columns")
                odd_labels = bool(ao.get("row_labels")) and copts.get("write_index") is False and not fr.get("index") and len(df) > 0
                if odd_labels:
                    lab = ao["row_labels"]
                    df.index = [lab[i % len(lab)] for i in range(len(df))]
                    labels.append("append_with_repeated_row_labels")
                try:
                    before = _snapshot(path, single)
                except Exception as e:
                    return discard("snapshot_failed:" + type(e).__name__, labels)
                try:
                    with cases.writer_globals(copts):
                        if ao["via"] == "write":
                            kw = {"append": True, "file_scheme": scheme, "row_group_offsets": ao["rgo"], "compression": ao["compression"]}
                            if pn:
                                kw["partition_on"] = pn
                            if odd_labels:
                                kw["write_index"] = False
                            fastparquet.write(path, df, **kw)
                            held = None       # a handle opened earlier no longer describes the dataset
                        else:
                            # several appends through one and the same handle, when nothing else touched the dataset
                            pf = held if (case.get("keep_handle") and held is not None) else fastparquet.ParquetFile(path)
                            if case.get("keep_handle"):
                                if held is not None:
                                    labels.append("handle_reused")
                                held = pf
                            d2 = df
                            if pf._get_index():
                                from fastparquet.util import reset_row_idx
                                d2 = reset_row_idx(df)
                            pf.write_row_groups(d2, row_group_offsets=ao["rgo"], compression=ao["compression"])
                except AttributeError as e:
                    # not a refusal: the library tripped over its own state while appending a compatible frame
                    return viol("append_crashed|%s|%s" % (scheme, exc_sig(e)), "append %d: %s" % (k, exc_detail(e)), labels=labels)
                except Exception as e:
                    if scheme != "drill" and "Column names of new data" in str(e) and not (pn and not order):
                        # (a partitioned dataset that holds no row yet has no partition columns to append to: by design)
                        # the batch has exactly the dataset's columns (and index): refusing it for its column names is wrong
                        # (drill datasets expose dirN instead of the partition columns and do refuse: a documented limit)
                        return viol("append_refused_compatible|%s|%s" % (scheme, ao["via"]), "append %d: %s" % (k, str(e)[:600]), labels=labels)
                    labels.append("append_raised")
                    return discard("append_raised:" + exc_sig(e), labels)
                order.extend(rows_k)
                r = _check_snapshot(before, path, single)
                if r:
                    return viol("bytes|%s|%s" % (r[0], scheme), "append %d: %s" % (k, r[1]), labels=labels)
            # ---- read back through a fresh handle after every step
            try:
                out = fastparquet.ParquetFile(path).to_pandas()
            except Exception as e:
                if k == 0:
                    return discard("create_unreadable(C01/C08):" + exc_sig(e), labels)
                return viol("read_raised|step%s|%s|%s" % ("0" if k == 0 else "N", scheme, exc_sig(e)),
                            "after %s: %s" % ("create" if k == 0 else "append %d" % k, exc_detail(e)), labels=labels)
            r = _compare(out, exp, order, fr0, colspec, vnames, pn, scheme, copts)
            if r:
                if k == 0:
                    return discard("create_roundtrip_differs(C01):" + r[0], labels)
                return viol("%s|%s|%s" % (r[0], scheme, "part" if pn else "nopart"), "after append %d: %s" % (k, r[1]), labels=labels)
    n0 = len([1 for rid in order if rid < batches[0]["n"]])
    appended = len(order) - n0
    if appended and any(b["n"] == 0 for b in batches[1:]):
        labels.append("zero_row_append")
    return ok(n0 >= 1 and appended >= 1, labels)


def _compare(out, exp, order, fr0, colspec, vnames, pn, scheme, copts):
    if "_rid" not in out.columns:
        return ("names", "no _rid column in %r" % list(out.columns))
    rr = [int(x) for x in out["_rid"].tolist()]
    if len(rr) != len(order):
        return ("rowcount", "rows %d != %d expected" % (len(rr), len(order)))
    if not pn:
        if rr != order:
            return ("order", "row ids %r != %r" % (rr[:30], order[:30]))
    else:
        if sorted(rr) != sorted(order):
            return ("multiset", "row ids %r != %r" % (sorted(rr)[:30], sorted(order)[:30]))
        last = {}
        for rid in rr:
            key = exp[rid][1]
            if last.get(key, -1) > rid:
                return ("partition_order", "rows of partition %r are not in write order: %r" % (key, rr[:30]))
            last[key] = rid
    for v in vnames:
        if v not in out.columns:
            return ("names", "column %r missing from %r" % (v, list(out.columns)))
        c = colspec[v]
        got, problems = table.canon_cells(out[v], c)
        if problems:
            return ("celltype|" + _tag(c), "column %r: %s" % (v, problems[0]))
        ns_ok = copts.get("times") == "int96"
        f = 1
        if c["kind"] == "datetime" and str(out[v].dtype).startswith("datetime64[ns") and c["unit"] != "ns" and ns_ok:
            f = cases.UNIT_NS[c["unit"]]
        for pos, rid in enumerate(rr):
            e = exp[rid][0][v]
            if e is not MISSING and f != 1:
                e = e * f
            g = got[pos]
            if (e is MISSING) != (g is MISSING) or (e is not MISSING and (type(e) is not type(g) or e != g)):
                return ("value|" + _tag(c), "column %r row id %d: expected %r got %r" % (v, rid, e, g))
        if c["kind"] != "category":
            dt = str(out[v].dtype)
            allowed = set(table.expected_dtype(c))
            if ns_ok and c["kind"] == "datetime":
                allowed |= table.expected_dtype(dict(c, unit="ns"))
            if dt not in allowed:
                return ("dtype|" + _tag(c), "column %r dtype %s not in %s" % (v, dt, sorted(allowed)))
        elif str(out[v].dtype) != "category":
            return ("dtype|category", "column %r came back as %s" % (v, out[v].dtype))
    ic = fr0.get("index")
    wi = copts.get("write_index")
    if ic is not None and (wi is True or wi is None) and not pn:
        got, problems = table.canon_cells(out.index, ic)
        fi = 1
        if ic["kind"] == "datetime" and str(out.index.dtype).startswith("datetime64[ns") and ic["unit"] != "ns" \
                and copts.get("times") == "int96":
            fi = cases.UNIT_NS[ic["unit"]]       # INT96 storage reads back as nanoseconds, as for the columns above
        for pos, rid in enumerate(rr):
            e = exp[rid][2]
            if e is not MISSING and fi != 1:
                e = e * fi
            g = got[pos]
            if (e is MISSING) != (g is MISSING) or (e is not MISSING and (type(e) is not type(g) or e != g)):
                return ("index_value|" + _tag(ic), "index at row id %d: expected %r got %r" % (rid, e, g))
    return None


def _tag(c):
    from vf.props.c01 import col_tag
    return col_tag(c)


def shrink_moves(case):
    nb = len(case["batches"])
    if nb > 2:
        for i in range(1, nb):
            c = copy.deepcopy(case)
            del c["batches"][i]
            del c["append_opts"][i - 1]
            yield c
    for k, v in shrinkers.OPT_DEFAULTS.items():
        if k in case["create_opts"] and case["create_opts"][k] != v and not (k == "file_scheme" and case["partition_on"]):
            c = copy.deepcopy(case)
            c["create_opts"][k] = v
            yield c
    for i, ao in enumerate(case["append_opts"]):
        for k, v in (("rgo", None), ("compression", None), ("via", "write")):
            if ao.get(k) != v:
                c = copy.deepcopy(case)
                c["append_opts"][i][k] = v
                yield c
    # drop a column everywhere
    names = [c["name"] for c in case["batches"][0]["cols"]]
    if len(names) - len(case["partition_on"]) > 1:
        for nm in names:
            if nm in case["partition_on"]:
                continue
            c = copy.deepcopy(case)
            for b in c["batches"]:
                b["cols"] = [x for x in b["cols"] if x["name"] != nm]
            yield c
    if case["batches"][0].get("index") is not None:
        c = copy.deepcopy(case)
        for b in c["batches"]:
            b["index"] = None
        yield c
    for bi, b in enumerate(case["batches"]):
        for new_n in sorted({0, 1, 2, b["n"] // 2, b["n"] - 1}):
            if 0 <= new_n < b["n"]:
                c = copy.deepcopy(case)
                c["batches"][bi]["n"] = new_n
                yield c
        for ci, col in enumerate(b["cols"]):
            if col["name"] in case["partition_on"]:
                continue
            for nc in shrinkers.column_moves(col):
                c = copy.deepcopy(case)
                c["batches"][bi]["cols"][ci] = nc
                yield c


def abbreviate(case):
    return {"batches": [shrinkers.abbreviate_frame(b) for b in case["batches"]], "create_opts": case["create_opts"],
            "append_opts": case["append_opts"], "partition_on": case["partition_on"]}
