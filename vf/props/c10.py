"""C10 - metadata serialisation is lossless, IDL-conformant and safe for any size."""
import copy
import pickle

from hypothesis import strategies as st

from vf import common, shrinkers
from vf.runner import discard, exc_detail, exc_sig, ok, viol

ID = "C10"
LEVEL = "exploration"
RULE = ("Hypothesis strategies are derived mechanically from the vendored Parquet IDL (parsed by refpq.idl) for FileMetaData, "
        "RowGroup, ColumnChunk, ColumnMetaData, PageHeader and its page headers, SchemaElement, Statistics, KeyValue, "
        "LogicalType and everything reachable: every optional field present or absent, unions with exactly one member, lists "
        "of length 0,1,2,14,15,16 (thorough: ~300), strings/binaries from empty to 64 KiB, integers over the full declared "
        "width. Three routes: (a) build through ThriftObject.from_fields with the i32/i32list markers the writer uses -> "
        "to_bytes; (b) refpq.compact.encode -> from_buffer -> to_bytes (re-serialising metadata read from another writer); "
        "(c) pickle / copy / deepcopy. Oracles: from_buffer(to_bytes(x)) == x; the bytes decode under refpq's strict "
        "IDL-driven compact decoder without any issue (field ids, exact wire types, list element types, required fields, "
        "nothing trailing) to exactly the model value. Non-trivial: >= 3 optional fields present and >= 1 nested struct or list. "
        "Serialised size is kept below the implementation's buffer in the campaign; beyond-buffer sizes run as isolated probes.")
ASSUMPTIONS = [
    "refpq.compact (strict decoder / canonical encoder written from the Thrift compact protocol description) is the oracle",
    "string fields are generated as valid UTF-8 (the IDL says string); binary fields are arbitrary bytes",
    "an empty list may carry any element-type nibble (tolerated, counted as a note)",
]
MANIFEST = {
    "category": "exploration",
    "technique": "IDL-derived property-based testing of the thrift (de)serialiser against an independent strict compact-protocol decoder/encoder",
    "text": "Values generated from the Parquet IDL are serialised by fastparquet (built through the API, and parsed from "
            "independently encoded bytes then re-serialised) and must round-trip, decode strictly per the IDL with the independent "
            "decoder to the same value, and survive pickle/copy.",
    "note": "Trusted: refpq.idl/compact. Sizes beyond the 500000-byte serialisation buffer are only exercised as isolated probes "
            "(heap overflow there is a recorded finding shared with C12).",
}
BUDGET = {"quick": {"shards": 8, "examples": 500, "wall": 110},
          "thorough": {"shards": 16, "examples": 30000, "wall": 1500}}
PROBE_ISOLATED = True
REPLAY_ISOLATED = True

ROOTS = ["FileMetaData", "RowGroup", "ColumnChunk", "ColumnMetaData", "PageHeader", "SchemaElement", "Statistics", "KeyValue",
         "LogicalType", "DataPageHeader", "DataPageHeaderV2", "DictionaryPageHeader", "PageEncodingStats", "SortingColumn",
         "ColumnOrder", "TimeUnit", "DecimalType", "TimestampType", "TimeType", "IntType"]
MAX_BYTES = 400000


def _idl():
    from vf.refpq import idl
    return idl.load()


INT_RANGE = {"byte": (-128, 127), "i16": (-2 ** 15, 2 ** 15 - 1), "i32": (-2 ** 31, 2 ** 31 - 1), "i64": (-2 ** 63, 2 ** 63 - 1)}


def _ints(kind):
    lo, hi = INT_RANGE[kind]
    return st.one_of(st.sampled_from([lo, hi, 0, 1, -1, 63, 64, 127, 128, min(hi, 2 ** 31 - 1), max(lo, -2 ** 31)]),
                     st.integers(lo, hi), st.integers(-300, 300))


def _text(thorough):
    big = st.sampled_from([127, 128, 16383, 16384, 65536] if not thorough else [127, 128, 16384, 65536, 300000])
    return st.one_of(st.text(max_size=8), st.sampled_from(["", "a", "é", "schema", "\U0001f600"]),
                     st.builds(lambda n, ch: ch * n, big, st.sampled_from(["x", "é"])))


def _binary(thorough):
    big = st.sampled_from([127, 128, 16383, 16384, 65536] if not thorough else [127, 128, 16384, 65536, 300000])
    return st.one_of(st.binary(max_size=8), st.sampled_from([b"", b"\x00", b"\xff\xfe"]),
                     st.builds(lambda n, b: b * n, big, st.sampled_from([b"\x00", b"\xc3", b"ab"])))


def _list_len(thorough):
    return st.sampled_from([0, 1, 1, 2, 2, 3, 14, 15, 16] + ([300] if thorough else []))


@st.composite
def value_of(draw, tp, depth, thorough):
    k = tp[0]
    if k == "bool":
        return draw(st.booleans())
    if k in INT_RANGE:
        return draw(_ints(k))
    if k == "enum":
        return draw(st.sampled_from(sorted(_idl().enums[tp[1]].values())))
    if k == "double":
        return draw(st.floats(allow_nan=False))
    if k == "string":
        return {"str": draw(_text(thorough))}
    if k == "binary":
        return {"hex": draw(_binary(thorough)).hex()}
    if k == "list":
        n = draw(_list_len(thorough))
        if depth > 3:
            n = min(n, 2)
        if tp[1][0] in ("struct",) and n > 16:
            n = 16 if depth > 1 else n
        return [draw(value_of(tp[1], depth + 1, thorough and n < 20)) for _ in range(n)]
    if k == "struct":
        return draw(struct_value(tp[1], depth + 1, thorough))
    raise ValueError(tp)


@st.composite
def struct_value(draw, name, depth=0, thorough=False):
    I = _idl()
    fields = I.structs[name]
    out = {}
    if name in I.unions:
        if not fields:
            return out
        f = draw(st.sampled_from(fields))
        out[f.name] = draw(value_of(f.type, depth, thorough))
        return out
    for f in fields:
        present = f.req == "required" or (depth <= 4 and draw(st.booleans()))
        if depth > 5 and f.req != "required":
            present = False
        if present:
            out[f.name] = draw(value_of(f.type, depth, thorough))
    return out


def avoid_known(name, value):
    """Steer a value away from the recorded findings (field id 14; i8/i16 fields) so that the
    campaign keeps searching past them: such fields are dropped, a union member that needs
    them is replaced by the empty STRING member."""
    I = _idl()
    out = {}
    for f in I.structs[name]:
        if f.name not in value:
            continue
        v, t = value[f.name], f.type
        if f.id >= 14 or t[0] in ("byte", "i16"):
            continue
        if t[0] == "struct":
            if t[1] == "IntType":
                continue
            v = avoid_known(t[1], v)
        elif t[0] == "list" and t[1][0] == "struct":
            v = [avoid_known(t[1][1], x) for x in v]
        out[f.name] = v
    if name in I.unions and not out and I.structs[name]:
        first = I.structs[name][0]
        out[first.name] = {} if first.type[0] == "struct" else 0
    return out


@st.composite
def strategy_(draw, thorough):
    if draw(st.integers(0, 5)) == 0:
        # the structures the writer itself builds (footer, page headers, dictionary page headers, statistics)
        from vf.gen import frames
        fr = draw(frames.frame(kinds=["int", "float", "text", "category", "datetime", "nullable", "bool"], max_cols=4, index=False,
                               rows=[1, 2, 5, 17]))
        opts = draw(frames.options(fr, schemes=("simple", "simple", "hive")))
        opts["page_size"] = draw(st.sampled_from([None, 32, 64]))
        return {"route": "file", "struct": "file", "frame": fr, "opts": opts, "value": {}}
    root = draw(st.sampled_from(ROOTS))
    if draw(st.integers(0, 3)) > 0:
        v = avoid_known(root, draw(struct_value(root, 0, thorough)))
        if root == "IntType":
            root, v = "DecimalType", {"scale": 2, "precision": 9}
        return {"struct": root, "value": v, "steered": True,
                "route": draw(st.sampled_from(["build", "build", "reparse", "reparse", "pickle", "copy", "deepcopy"])),
                "str_as_bytes": draw(st.booleans())}
    return {"struct": root, "value": draw(struct_value(root, 0, thorough)),
            "route": draw(st.sampled_from(["build", "build", "reparse", "reparse", "pickle", "copy", "deepcopy"])),
            "str_as_bytes": draw(st.booleans())}


def strategy(tier):
    return strategy_(tier == "thorough")


# ------------------------------------------------------------------ conversions
def to_plain(value):
    """Model value -> dict keyed by field name with bytes for string/binary (refpq.compact domain)."""
    if isinstance(value, dict):
        if set(value) == {"str"}:
            return value["str"].encode("utf8")
        if set(value) == {"hex"}:
            return bytes.fromhex(value["hex"])
        return {k: to_plain(v) for k, v in value.items()}
    if isinstance(value, list):
        return [to_plain(v) for v in value]
    return value


_known = {}


def fp_knows(name):
    from fastparquet.cencoding import ThriftObject
    if name not in _known:
        try:
            ThriftObject.from_fields(name)
            _known[name] = True
        except KeyError:
            _known[name] = False
    return _known[name]


def strip_unknown(name, value):
    """Drop fields whose struct type the library has no spec for (encryption structs): they cannot be built through the API."""
    I = _idl()
    out = {}
    for f in I.structs[name]:
        if f.name not in value:
            continue
        v = value[f.name]
        t = f.type
        if t[0] == "struct":
            if not fp_knows(t[1]):
                continue
            v = strip_unknown(t[1], v)
        elif t[0] == "list" and t[1][0] == "struct":
            if not fp_knows(t[1][1]):
                continue
            v = [strip_unknown(t[1][1], x) for x in v]
        out[f.name] = v
    return out


def build_object(name, value, str_as_bytes):
    """Route (a): ThriftObject tree built the way the writer builds it, with i32 markers taken from the IDL."""
    from fastparquet.cencoding import ThriftObject
    I = _idl()
    kwargs = {}
    i32ids, has64 = [], False
    for f in I.structs[name]:
        if f.name not in value:
            continue
        v = value[f.name]
        t = f.type
        kwargs[f.name] = _conv(t, v, str_as_bytes)
        if t[0] in ("i32", "enum", "i16", "byte"):
            i32ids.append(f.id)
        elif t[0] == "i64":
            has64 = True
    return ThriftObject.from_fields(name, i32=bool(i32ids and not has64), i32list=(i32ids if (i32ids and has64) else None), **kwargs)


def _conv(t, v, sab):
    if t[0] == "struct":
        return build_object(t[1], v, sab)
    if t[0] == "list":
        # elements of a list<string> (path_in_schema) are always str in the library's own callers
        return [_conv(t[1], x, sab and t[1][0] != "string") for x in v]
    if t[0] == "string":
        return v["str"].encode("utf8") if sab else v["str"]
    if t[0] == "binary":
        return bytes.fromhex(v["hex"])
    return v


def count_features(name, value):
    """(# optional fields present, # nested structs/lists) for the non-triviality rule."""
    I = _idl()
    opt = nest = 0
    for f in I.structs[name]:
        if f.name not in value:
            continue
        if f.req != "required":
            opt += 1
        t = f.type
        if t[0] == "struct":
            nest += 1
            o, n = count_features(t[1], value[f.name])
            opt += o
            nest += n
        elif t[0] == "list":
            nest += 1
            if t[1][0] == "struct":
                for x in value[f.name]:
                    o, n = count_features(t[1][1], x)
                    opt += o
                    nest += n
    return opt, nest


def diff(a, b, path=""):
    """First difference between two plain values (dicts by field name)."""
    if isinstance(a, dict) and isinstance(b, dict):
        for k in sorted(set(a) | set(b)):
            if k not in b:
                return "%s.%s lost" % (path, k), k
            if k not in a:
                return "%s.%s appeared" % (path, k), k
            d = diff(a[k], b[k], path + "." + k)
            if d:
                return d
        return None
    if isinstance(a, list) and isinstance(b, list):
        if len(a) != len(b):
            return "%s: list length %d -> %d" % (path, len(a), len(b)), path.rsplit(".", 1)[-1]
        for i, (x, y) in enumerate(zip(a, b)):
            d = diff(x, y, "%s[%d]" % (path, i))
            if d:
                return d
        return None
    if type(a) is not type(b) or a != b:
        return "%s: %r -> %r" % (path, _s(a), _s(b)), path.rsplit(".", 1)[-1]
    return None


def _s(x):
    r = repr(x)
    return r if len(r) < 60 else r[:60] + "..."


def has_field14(name, value):
    I = _idl()
    for f in I.structs[name]:
        if f.name not in value:
            continue
        if f.id >= 14:
            return True
        t = f.type
        if t[0] == "struct" and has_field14(t[1], value[f.name]):
            return True
        if t[0] == "list" and t[1][0] == "struct" and any(has_field14(t[1][1], x) for x in value[f.name]):
            return True
    return False


def has_narrow_int(name, value):
    """Does the value hold an i8 / i16 field (IntType.bitWidth)?"""
    I = _idl()
    for f in I.structs[name]:
        if f.name not in value:
            continue
        t = f.type
        if t[0] in ("byte", "i16"):
            return True
        if t[0] == "struct" and has_narrow_int(t[1], value[f.name]):
            return True
        if t[0] == "list" and t[1][0] == "struct" and any(has_narrow_int(t[1][1], x) for x in value[f.name]):
            return True
    return False


def run_case(case):
    from fastparquet.cencoding import ThriftObject, from_buffer
    from vf.refpq import compact
    name, route = case["struct"], case["route"]
    if route == "file":
        return _file_route(case)
    labels = ["route:" + route, "struct:" + name] + (["steered_away_from_known"] if case.get("steered") else [])
    value = case["value"]
    if route != "reparse":
        value = strip_unknown(name, value)
    plain = to_plain(value)
    try:
        ref_bytes = compact.encode(plain, name)
    except Exception as e:
        return discard("oracle cannot encode: %s" % type(e).__name__, labels)
    if len(ref_bytes) > MAX_BYTES and not case.get("allow_big"):
        return discard("above the serialisation buffer (probe territory)", labels)
    try:
        if route == "reparse":
            obj = from_buffer(ref_bytes, name)
        else:
            obj = build_object(name, value, case.get("str_as_bytes"))
        if route == "pickle":
            obj2 = pickle.loads(pickle.dumps(obj))
        elif route == "copy":
            obj2 = copy.copy(obj)
        elif route == "deepcopy":
            obj2 = copy.deepcopy(obj)
        else:
            obj2 = obj
        out = bytes(obj2.to_bytes())
    except Exception as e:
        return viol("raised|%s|%s" % (route, exc_sig(e)), exc_detail(e), labels=labels)
    if route in ("pickle", "copy", "deepcopy"):
        if not (obj == obj2) or bytes(obj.to_bytes()) != out:
            return viol("copy_differs|" + route, "%s of a %s is not equal to the original" % (route, name), labels=labels)
    # lossless: parse back with the library itself
    try:
        back = from_buffer(out, name)
    except Exception as e:
        return viol("reparse_raised|" + exc_sig(e), exc_detail(e), labels=labels)
    # (the library's equality decodes bytes on the right-hand side only: x == parsed, not parsed == x)
    if not (obj2 == back):
        return viol("roundtrip_not_equal|" + name, "x != from_buffer(to_bytes(x)) for a %s" % name, labels=labels)
    # conformance: strict independent decode
    try:
        dec, end, issues = compact.decode(out, name)
    except Exception as e:
        return viol("not_thrift|%s|%s" % (route, type(e).__name__), "independent decoder cannot parse the output: %s" % e, labels=labels)
    real = compact.real_issues(issues)
    if real:
        kind = real[0].split()[0]
        what = real[0].split()[1].rstrip(":") if len(real[0].split()) > 1 else ""
        return viol("conformance|%s|%s|%s" % (kind, what, route), "%s (+%d more)" % (real[0], len(real) - 1), labels=labels)
    if end != len(out):
        return viol("trailing_bytes|" + route, "struct ends at %d of %d bytes" % (end, len(out)), labels=labels)
    d = diff(plain, dec)
    if d:
        kind = "lost_field" if d[0].endswith("lost") else "value_changed"
        return viol("%s|%s|%s" % (kind, d[1], route), d[0], labels=labels)
    opt, nest = count_features(name, value)
    if any(n for n in issues if n.startswith("note")):
        labels.append("note:empty_list_elem_type")
    labels.append("bytes:%s" % ("<100" if len(out) < 100 else "<10k" if len(out) < 10000 else ">=10k"))
    return ok(opt >= 3 and nest >= 1, labels)


def _file_route(case):
    """Every thrift structure of every file the writer produces must decode strictly per the IDL."""
    import os
    from vf import cases
    from vf.props import c01
    from vf.refpq import reader
    labels = ["route:file"]
    if cases.required_with_missing(case["frame"], case["opts"]):
        return discard("missing category cell in a required column (invalid request, C18)", labels)
    with common.Scratch() as d:
        df, path, err = c01.write_case({"frame": case["frame"], "opts": case["opts"]}, d)
        if err is not None:
            return discard("write_raised", labels)
        files = [path] if os.path.isfile(path) else [os.path.join(path, f) for f in sorted(os.listdir(path)) if os.path.isfile(os.path.join(path, f))]
        n_structs = 0
        for fn in files:
            with open(fn, "rb") as f:
                pd_ = reader.read(f.read())
            for i in pd_.issues:
                if i.kind == "thrift":
                    what = i.detail.split()
                    return viol("conformance|%s|%s|file" % (what[0], what[1].rstrip(":") if len(what) > 1 else ""),
                                "%s: %s at %s" % (os.path.basename(fn), i.detail, i.where), labels=labels)
            n_structs += 1 + sum(len(ch.pages) for rg in pd_.row_groups for ch in rg.chunks.values())
    return ok(n_structs >= 3, labels + ["structs:%s" % ("<5" if n_structs < 5 else "5-20" if n_structs <= 20 else ">20")])


def probes():
    """Known findings the campaign is steered away from (beyond-buffer sizes)."""
    big = {"struct": "Statistics", "value": {"max": {"hex": "61" * 600000}, "min": {"hex": "61"}, "null_count": 0},
           "route": "build", "str_as_bytes": False, "allow_big": True}
    return [("C10-to-bytes-overflow", big)] + large_kv_cases()


def large_kv_cases():
    """FileMetaData whose key/value metadata is large: the one place where the serialiser sizes its buffer from the value
    (``1000 * row groups * schema elements + len(str(key_value_metadata))``).  With one row group the estimate leaves
    room for the rest of the footer, so these are *valid* inputs that must round-trip on the pinned tree."""
    out = []
    schema = [{"name": {"str": "schema"}, "num_children": 1}, {"name": {"str": "a"}, "type": 1, "repetition_type": 0}]
    rg = {"columns": [{"file_offset": 4, "meta_data": {"type": 1, "encodings": [0], "path_in_schema": [{"str": "a"}], "codec": 0,
                                                       "num_values": 1, "total_uncompressed_size": 30, "total_compressed_size": 30,
                                                       "data_page_offset": 4}}],
          "total_byte_size": 30, "num_rows": 1}
    for nkv, size in ((1, 600000), (3, 900000), (40, 30000)):
        kv = [{"key": {"str": "k%d" % i}, "value": {"str": "v" * size}} for i in range(nkv)]
        for route in ("build", "reparse"):
            out.append(("boundary:large-key-value-metadata",
                        {"struct": "FileMetaData", "route": route, "str_as_bytes": False, "allow_big": True,
                         "value": {"version": 1, "schema": schema, "num_rows": 1, "row_groups": [rg], "key_value_metadata": kv}}))
    # ... and without row groups (the _common_metadata of a hive dataset) the estimate has no room left: part of the finding
    kv = [{"key": {"str": "k"}, "value": {"str": "v" * 600000}}]
    out.append(("C10-to-bytes-overflow", {"struct": "FileMetaData", "route": "build", "str_as_bytes": False, "allow_big": True,
                                          "value": {"version": 1, "schema": schema, "num_rows": 0, "row_groups": [], "key_value_metadata": kv}}))
    return out


def pinned_buffer_size(case):
    """Upper estimate of the buffer ThriftObject.to_bytes allocates on the pinned tree for this value (cencoding.pyx l.794-801)."""
    v, name = case.get("value") or {}, case.get("struct")
    size = 0
    if name == "RowGroup":
        size = 1000 * len(v.get("columns") or [])
    elif name == "FileMetaData":
        kv = v.get("key_value_metadata")
        if kv is None:
            n = 4
        else:
            def plain(x):
                if isinstance(x, dict):
                    return x.get("str") if "str" in x else bytes.fromhex(x.get("hex", ""))
                return x
            items = []
            for e in kv:
                d = {}
                if "key" in e:
                    d[1] = plain(e["key"])
                if "value" in e:
                    d[2] = plain(e["value"])
                items.append(d)
            n = len(str(items)) + 3 * len(items)        # (+ b'' prefixes if the strings are held as bytes)
        size = 1000 * len(v.get("row_groups") or []) * len(v.get("schema") or []) + n
    return max(size, 500000)


def reference_size(case):
    from vf.refpq import compact
    try:
        return len(compact.encode(to_plain(case["value"]), case["struct"]))
    except Exception:
        return None
