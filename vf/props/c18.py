"""C18 - rejected operations raise and leave an existing dataset exactly as it was."""
import copy
import os

import numpy as np
import pandas as pd
from hypothesis import strategies as st

from vf import cases, common, dsinv, shrinkers
from vf.faultfs import FaultFS
from vf.gen import datasets, frames
from vf.model import frames_eq
from vf.runner import discard, exc_detail, exc_sig, ok, viol

ID = "C18"
LEVEL = "exploration"
RULE = ("Hypothesis draws an existing dataset (single file | hive | partitioned hive; 1-4 row groups) and ONE rejected operation from "
        "a catalogue, with the offending element at a drawn position (first/middle/last column; first or later row group of the new "
        "data): unsupported dtype (complex), non-text or duplicate column names, a missing value in a text, bytes or categorical column "
        "written non-nullable, a value JSON cannot express in a column stored as JSON, "
        "values not encodable as declared (lone surrogate in text, bytes in a text column, text in an int-encoded object column), "
        "append with a missing/extra column, with another file scheme or partitioning, unknown codec (top level or one column), "
        "unknown column in columns= / filters=; beyond the listed kinds, under the same principle: a refused key/value update, and a "
        "valid append interrupted by KeyboardInterrupt inside an I/O call chosen from a dry run (any write, the footer's included); "
        "issued as a fresh write next to the dataset, as append=True, through a kept handle, or as "
        "append='overwrite'. Oracle: the call ends in a Python Exception, and afterwards a fresh handle reads exactly the snapshot "
        "taken before (multi-file: the metadata/directory agreement holds for referenced files). The operation goes through a "
        "pass-through event counter: non-trivial = the exception came after at least one write event (bytes or files were already written).")
ASSUMPTIONS = [
    "a fresh (non-append) write onto the path of the existing dataset is not generated: replacing a dataset is destructive by request",
    "unreferenced files left behind by a failed multi-file attempt are allowed (the property speaks of content)",
    "every catalogue entry is refused explicitly in code or documentation (ValueError/TypeError/RuntimeError raised by the library)",
]
MANIFEST = {
    "category": "exploration",
    "technique": "property-based negative testing: generated dataset states x catalogue of rejected operations x offending position, with before/after content comparison",
    "text": "Every generated rejected operation must raise, and the pre-existing dataset must read back exactly as before - also when "
            "the failure happens after part of the new data was already written.",
    "note": "Trusted: the pass-through event counter (vf/faultfs.py) for the non-triviality rule; frames_eq for before/after comparison.",
}
BUDGET = {"quick": {"shards": 16, "examples": 75, "wall": 200},
          "thorough": {"shards": 16, "examples": 4000, "wall": 1500}}
VALUE_KINDS = ["int", "float", "text", "bool", "datetime", "nullable", "bytes", "json", "category"]

KINDS = ["bad_dtype", "nonstr_name", "dup_names", "null_in_required", "surrogate_text", "bytes_in_text", "text_in_int", "nonjson_in_json",
         "missing_column", "extra_column", "diff_scheme", "diff_partition", "unknown_codec", "unknown_codec_col",
         "read_unknown_column", "filter_unknown_column",
         # beyond the kinds the property lists, same principle: a refused in-place update of the key/value metadata
         "kv_update_nontext",
         # ... and a valid append that is interrupted from outside (KeyboardInterrupt arriving inside an I/O call)
         "interrupted", "interrupted"]


@st.composite
def strategy_(draw, thorough):
    base = draw(datasets.dataset(thorough=False, partition_prob=3, value_kinds=VALUE_KINDS, min_rows=2))
    fr0, opts = base["frame"], base["opts"]
    frames.pin_object_schema(fr0)
    fr0["index"] = None
    opts.update({"write_index": False, "page_size": None, "times": "int64", "object_encoding": "infer", "dpv": 1})
    if opts["file_scheme"] == "drill":
        opts["file_scheme"] = "hive"
    pn = list(base.get("partition_on") or [])
    kind = draw(st.sampled_from(KINDS))
    opts["has_nulls"] = False if kind == "null_in_required" else True
    if kind == "null_in_required":
        # the base must be writable as non-nullable: no missing cells in object columns
        for c in fr0["cols"]:
            if c["kind"] in ("text", "bytes", "nullable", "float", "datetime", "json", "category"):
                c["null"] = {"pat": "none", "mask": []}
    if fr0["n"] >= 2:
        opts["rgo"] = draw(st.sampled_from([None, 1, 2, max(1, fr0["n"] // 2)]))
    vfr = {"n": 0, "cols": [c for c in fr0["cols"] if c["name"] not in pn], "index": None}
    nf = draw(frames.compatible_frame(vfr, rows=[2, 3, 4, 6, 9], same_categories=True))
    nf["n"] = max(nf["n"], 2)
    if draw(st.integers(0, 3)) == 0:
        # enough new data to be longer than the footer it overwrites
        nf["n"] = draw(st.sampled_from([600, 2000, 5000]))
    if kind == "null_in_required":
        for c in nf["cols"]:
            c["null"] = {"pat": "none", "mask": []}
    cols, it = [], iter(nf["cols"])
    for c in fr0["cols"]:
        if c["name"] in pn:
            pc = copy.deepcopy(c)
            pc["idx"] = draw(st.lists(st.integers(0, 5), min_size=1, max_size=8))
            pc["null"] = {"pat": "none", "mask": []}
            cols.append(pc)
        else:
            cols.append(next(it))
    nf["cols"] = cols
    return {"frame": fr0, "opts": opts, "partition_on": pn, "new": nf, "kind": kind,
            "channel": draw(st.sampled_from(["append", "append", "append", "handle_append", "handle_append", "fresh_next_to", "overwrite"])),
            "colpos": draw(st.sampled_from(["first", "middle", "last"])), "rowpos": draw(st.sampled_from(["first_rg", "later_rg"])),
            "new_rgo": draw(st.sampled_from([None, 1, 2]))}


def strategy(tier):
    return strategy_(tier == "thorough")


class NotApplicable(Exception):
    pass


def _pick(cands, colpos):
    if not cands:
        raise NotApplicable("no suitable column")
    return cands[0] if colpos == "first" else cands[-1] if colpos == "last" else cands[len(cands) // 2]


def prepare_op(case, df1, path, other):
    """Returns (callable(fs) performing the rejected operation, label)."""
    import fastparquet
    kind, channel = case["kind"], case["channel"]
    fr0, opts, pn = case["frame"], case["opts"], list(case["partition_on"])
    scheme = opts.get("file_scheme", "simple")
    vcols = [c for c in fr0["cols"] if c["name"] not in pn]
    n1 = len(df1)
    row = 0 if case["rowpos"] == "first_rg" or n1 < 2 else n1 - 1
    kw = {"file_scheme": scheme, "row_group_offsets": case["new_rgo"]}
    if pn:
        kw["partition_on"] = pn
    df = df1.copy()
    if kind == "bad_dtype":
        c = _pick(vcols, case["colpos"])
        df[c["name"]] = np.array([1j] * n1)
    elif kind == "nonstr_name":
        c = _pick(vcols, case["colpos"])
        df = df.rename(columns={c["name"]: 7})
    elif kind == "dup_names":
        if len(vcols) < 2:
            raise NotApplicable("needs two columns")
        names = list(df.columns)
        c = _pick(vcols[1:], case["colpos"])
        names[names.index(c["name"])] = vcols[0]["name"]
        df.columns = names
    elif kind == "null_in_required":
        c = _pick([c for c in vcols if (c["kind"] in ("text", "bytes") and c.get("sub") != "str") or c["kind"] == "category"], case["colpos"])
        if c["kind"] == "category":
            # (floats and times have NaN / NaT as sentinels; a dictionary index has none)
            col = df[c["name"]].copy()
            col.iloc[row] = np.nan
        else:
            col = df[c["name"]].astype(object).copy()
            col.iloc[row] = None
        df[c["name"]] = col
    elif kind == "surrogate_text":
        c = _pick([c for c in vcols if c["kind"] == "text"], case["colpos"])
        col = df[c["name"]].astype(object).copy()
        col.iloc[row] = "\ud800"
        df[c["name"]] = col
    elif kind == "bytes_in_text":
        c = _pick([c for c in vcols if c["kind"] == "text"], case["colpos"])
        col = df[c["name"]].astype(object).copy()
        col.iloc[row] = b"\xff\xfe"
        df[c["name"]] = col
    elif kind == "text_in_int":
        c = _pick([c for c in vcols if c["kind"] == "int"], case["colpos"])
        col = df[c["name"]].astype(object).copy()
        col.iloc[row] = "not a number"
        df[c["name"]] = col
    elif kind == "nonjson_in_json":
        # a column stored as JSON text (declared by the dataset's schema) and a value JSON cannot express
        c = _pick([c for c in vcols if c["kind"] == "json"], case["colpos"])
        col = df[c["name"]].astype(object).copy()
        col.iloc[row] = [{"a": {1, 2}}, {"k": 1j}, {"b": b"\xff"}, object][n1 % 4]
        df[c["name"]] = col
    elif kind == "missing_column":
        if len(vcols) < 2:
            raise NotApplicable("needs two columns")
        df = df.drop(columns=[_pick(vcols, case["colpos"])["name"]])
    elif kind == "extra_column":
        df["__extra__"] = np.arange(n1)
    elif kind == "diff_scheme":
        # (hive and drill are one class of scheme for an append: only the single-file / multi-file difference is refused)
        kw["file_scheme"] = ("hive" if case["colpos"] != "last" else "drill") if scheme == "simple" else "simple"
        kw.pop("partition_on", None)
    elif kind == "diff_partition":
        if scheme == "simple":
            raise NotApplicable("needs a multi-file dataset")
        other_pn = [c["name"] for c in vcols if c["kind"] in ("int", "bool")][:1]
        if pn and case["rowpos"] == "later_rg":
            kw.pop("partition_on", None)          # no partitioning at all given for a partitioned dataset
        elif pn:
            kw["partition_on"] = pn[:-1] if len(pn) > 1 else (other_pn or ["__nope__"])
        else:
            if not other_pn:
                raise NotApplicable("no column to partition on")
            kw["partition_on"] = other_pn
        if case["colpos"] == "last":
            kw["file_scheme"] = "drill"      # the other multi-file spelling: the partitioning still has to match
    elif kind == "unknown_codec":
        kw["compression"] = "NOPE"
    elif kind == "unknown_codec_col":
        c = _pick(vcols, case["colpos"])
        kw["compression"] = {c["name"]: "NOPE", "_default": "SNAPPY"}

    if kind == "interrupted":
        if channel not in ("append", "handle_append"):
            raise NotApplicable("append only")
        if channel == "handle_append":
            pf = fastparquet.ParquetFile(path)
            return (lambda fs: pf.write_row_groups(df, row_group_offsets=kw.get("row_group_offsets"), open_with=fs.open_with,
                                                   mkdirs=fs.mkdirs)), "interrupted_handle_append"
        return (lambda fs: fastparquet.write(path, df, append=True, open_with=fs.open_with, mkdirs=fs.mkdirs, **kw)), "interrupted_append"
    if kind == "kv_update_nontext":
        from fastparquet import writer as fwriter
        target = path if scheme == "simple" else os.path.join(path, "_metadata")
        bad = {"simple": {"k": 5}, "hive": {"owner": "x", "n": [1, 2]}}.get(scheme, {"k": 5.5})
        return (lambda fs: fwriter.update_file_custom_metadata(target, bad, is_metadata_file=(scheme != "simple"))), "kv_update"
    if kind == "read_unknown_column":
        return (lambda fs: fastparquet.ParquetFile(path).to_pandas(columns=["__nope__"])), "read"
    if kind == "filter_unknown_column":
        good = [c["name"] for c in vcols if c["kind"] in ("int", "float", "bool")][:1]
        if case["colpos"] == "first" or not good:
            flt = [("__nope__", "==", 1)]
        elif case["colpos"] == "middle":
            flt = [[("__nope__", "==", 1)], [(good[0], "==", 1)]]
        else:
            flt = [[(good[0], "==", 1)], [("__nope__", "==", 1)]]       # the unknown column in a later OR group
        return (lambda fs: fastparquet.ParquetFile(path).to_pandas(filters=flt)), "read"
    if channel == "fresh_next_to":
        # a fresh write infers its schema from the very data given: only rejections that do not
        # depend on a previously stored schema are rejections there
        if kind not in ("bad_dtype", "nonstr_name", "dup_names", "unknown_codec", "unknown_codec_col", "surrogate_text", "null_in_required"):
            raise NotApplicable("only meaningful for append")
        kw2 = dict(kw)
        if kind == "null_in_required":
            kw2["has_nulls"] = False
        if scheme == "simple":
            kw2.pop("partition_on", None)
        return (lambda fs: fastparquet.write(other, df, open_with=fs.open_with, mkdirs=fs.mkdirs, **kw2)), "fresh"
    if channel == "overwrite":
        if scheme == "simple" or not pn:
            # overwrite of a non-partitioned / single-file dataset is itself a documented refusal
            return (lambda fs: fastparquet.write(path, df, append="overwrite", open_with=fs.open_with, mkdirs=fs.mkdirs,
                                                 **{k: v for k, v in kw.items() if k != "file_scheme"}, file_scheme="hive")), "overwrite_refused"
        if kind in ("diff_scheme", "diff_partition"):
            raise NotApplicable("append only")
        kwo = {k: v for k, v in kw.items() if k in ("row_group_offsets", "compression")}
        return (lambda fs: fastparquet.write(path, df, append="overwrite", file_scheme="hive", partition_on=pn,
                                             open_with=fs.open_with, mkdirs=fs.mkdirs, **kwo)), "overwrite"
    if channel == "handle_append":
        # the refused batch goes through a handle the caller keeps; afterwards the handle must still be good for a valid append
        if kind not in ("surrogate_text", "bytes_in_text", "text_in_int", "unknown_codec_col", "extra_column", "missing_column"):
            raise NotApplicable("append through write() only")
        pf = fastparquet.ParquetFile(path)
        case["_handle"] = pf
        return (lambda fs: pf.write_row_groups(df, row_group_offsets=kw.get("row_group_offsets"), compression=kw.get("compression"),
                                               open_with=fs.open_with, mkdirs=fs.mkdirs)), "handle_append"
    return (lambda fs: fastparquet.write(path, df, append=True, open_with=fs.open_with, mkdirs=fs.mkdirs, **kw)), "append"


def run_case(case):
    import fastparquet
    fr0, opts, pn = case["frame"], case["opts"], list(case["partition_on"])
    scheme = opts.get("file_scheme", "simple")
    labels = ["kind:" + case["kind"], "channel:" + case["channel"], "scheme:" + scheme + ("+part" if pn else ""),
              "colpos:" + case["colpos"], "rowpos:" + case["rowpos"]]
    with common.Scratch() as d:
        path = os.path.join(d, "t.parq" if scheme == "simple" else "ds")
        other = os.path.join(d, "other.parq" if scheme == "simple" else "other_ds")
        df0 = cases.build_frame(fr0)
        df1 = cases.build_frame(case["new"])
        kw = cases.write_kwargs(opts)
        if pn:
            kw["partition_on"] = pn
        try:
            fastparquet.write(path, df0, **kw)
            before = fastparquet.ParquetFile(path).to_pandas()
        except Exception as e:
            return discard("base_write_or_read_raised", labels)
        try:
            op, how = prepare_op(case, df1, path, other)
        except NotApplicable as e:
            return discard("not applicable: %s" % e, labels)
        labels.append("how:" + how)
        fs = FaultFS()
        if case["kind"] == "interrupted":
            # dry run on a copy: which I/O calls does this (valid) append make?
            import shutil
            dry = os.path.join(d, "dry")
            (shutil.copytree if os.path.isdir(path) else shutil.copy)(path, dry)
            dcase = dict(case)
            try:
                dop, _ = prepare_op(dcase, df1, dry, other)
                dfs = FaultFS()
                dop(dfs)
                dfs.close_all()
            except Exception as e:
                return discard("valid append raised in the dry run:" + exc_sig(e), labels)
            evs = dfs.events
            if scheme == "simple":
                # any write of the append, the new footer, its length and the closing magic included: a write that does
                # not happen leaves the append incomplete
                ks = [i for i, ev in enumerate(evs, 1) if ev[0] == "write"]
            else:
                meta = [i for i, ev in enumerate(evs, 1) if ev[0] == "open_w" and ev[1].endswith("_metadata")]
                ks = list(range(1, meta[0])) if meta else []
            if not ks:
                return discard("no interruptible call", labels)
            pos = {("first", "first_rg"): 0, ("first", "later_rg"): len(ks) // 3, ("middle", "first_rg"): len(ks) // 2,
                   ("middle", "later_rg"): -2, ("last", "first_rg"): -3, ("last", "later_rg"): -1}[(case["colpos"], case["rowpos"])]
            k = ks[max(-len(ks), min(pos, len(ks) - 1))]
            labels.append("interrupt_at:%s" % evs[k - 1][0])
            op, how = prepare_op(case, df1, path, other)
            fs = FaultFS(fail_at=k, exc=KeyboardInterrupt)
        try:
            op(fs)
        except Exception as e:
            raised = e
        except KeyboardInterrupt as e:
            if not fs.injected:
                raise
            raised = e
        else:
            raised = None
        finally:
            fs.close_all()
        if case["kind"] == "interrupted" and not fs.injected:
            return discard("event sequence diverged from the dry run", labels)
        if raised is None and case["kind"] == "kv_update_nontext":
            return discard("not refused", labels)
        if raised is None:
            return viol("accepted|%s|%s" % (case["kind"], how), "the operation (%s through %s) did not raise" % (case["kind"], how), labels=labels)
        writes = sum(1 for ev in fs.events if ev[0] == "write")
        try:
            after = fastparquet.ParquetFile(path).to_pandas()
        except Exception as e:
            return viol("dataset_unreadable|%s|%s|%s" % (how, scheme, "after_writes" if writes else "before_writes"),
                        "%s raised %r, then the existing dataset cannot be read: %s" % (case["kind"], raised, exc_detail(e)), labels=labels)
        r = frames_eq.frames_equal(after, before)
        if r:
            return viol("dataset_changed|%s|%s|%s" % (how, scheme, r[0]), "%s raised %r, then the dataset reads differently: %s" % (case["kind"], raised, r[1]),
                        labels=labels)
        if scheme != "simple":
            r = dsinv.agreement(path, unreferenced_is_violation=False)
            if r:
                return viol("agreement|%s|%s" % (how, r[0]), r[1], labels=labels)
        if how == "handle_append":
            # the handle that refused the batch takes a valid one (the base frame again)
            pf = case.pop("_handle")
            good = df0.dropna(subset=pn) if pn else df0
            try:
                pf.write_row_groups(df0)
            except Exception as e:
                return discard("valid append after the refusal raised:" + exc_sig(e), labels)
            try:
                after2 = fastparquet.ParquetFile(path).to_pandas()
            except Exception as e:
                return viol("dataset_unreadable|after_valid_append_through_the_refusing_handle|%s" % scheme,
                            "%s raised %r; a valid append through the same handle then left the dataset unreadable: %s"
                            % (case["kind"], raised, exc_detail(e)), labels=labels)
            if len(after2) != len(before) + len(good):
                return viol("rowcount|after_valid_append_through_the_refusing_handle|%s" % scheme,
                            "rows %d, expected %d + %d" % (len(after2), len(before), len(good)), labels=labels)
            labels.append("handle_reused_after_refusal")
        labels.append("raised:" + type(raised).__name__)
        labels.append("writes_before_exception:%s" % ("0" if not writes else "1-9" if writes < 10 else ">=10"))
    return ok(writes > 0, labels)


def shrink_moves(case):
    for k, v in (("colpos", "first"), ("rowpos", "first_rg"), ("new_rgo", None)):
        if case.get(k) != v:
            c = copy.deepcopy(case)
            c[k] = v
            yield c
    for key in ("frame", "new"):
        for f in shrinkers.frame_moves(case[key]):
            names = {c["name"] for c in f["cols"]}
            other = case["new" if key == "frame" else "frame"]
            if names != {c["name"] for c in other["cols"]} or f["n"] < 2:
                continue
            c = copy.deepcopy(case)
            c[key] = f
            yield c
    names = [c["name"] for c in case["frame"]["cols"] if c["name"] not in case["partition_on"]]
    if len(names) > 1:
        for nm in names:
            c = copy.deepcopy(case)
            c["frame"]["cols"] = [x for x in c["frame"]["cols"] if x["name"] != nm]
            c["new"]["cols"] = [x for x in c["new"]["cols"] if x["name"] != nm]
            yield c
    for k, v in (("compression", None), ("rgo", None), ("stats", "auto")):
        if case["opts"].get(k) != v:
            c = copy.deepcopy(case)
            c["opts"][k] = v
            yield c


def abbreviate(case):
    return {"frame": shrinkers.abbreviate_frame(case["frame"]), "new": shrinkers.abbreviate_frame(case["new"]),
            "scheme": case["opts"].get("file_scheme"), "partition_on": case["partition_on"], "kind": case["kind"],
            "channel": case["channel"], "colpos": case["colpos"], "rowpos": case["rowpos"], "base_rgo": case["opts"].get("rgo"),
            "new_rgo": case["new_rgo"]}
