"""Structural shrinking moves over JSON cases (greedy ddmin driven by vf.runner.shrink)
and abbreviations for evidence samples."""
import copy

OPT_DEFAULTS = {"compression": None, "rgo": None, "has_nulls": True, "stats": "auto", "times": "int64",
                "object_encoding": "infer", "file_scheme": "simple", "write_index": None,
                "page_size": None, "dpv": 1}


def _with(case, path, value):
    c = copy.deepcopy(case)
    cur = c
    for p in path[:-1]:
        cur = cur[p]
    cur[path[-1]] = value
    return c


def opts_moves(case, key="opts"):
    o = case.get(key) or {}
    for k, dv in OPT_DEFAULTS.items():
        if k in o and o[k] != dv:
            yield _with(case, [key, k], dv)
    comp = o.get("compression")
    if isinstance(comp, dict):
        for v in comp.values():
            if isinstance(v, str):
                yield _with(case, [key, "compression"], v)
                break
    if isinstance(o.get("rgo"), list) and len(o["rgo"]) > 2:
        yield _with(case, [key, "rgo"], o["rgo"][:2])
        yield _with(case, [key, "rgo"], [0] + o["rgo"][2:])
    if isinstance(o.get("has_nulls"), list):
        yield _with(case, [key, "has_nulls"], False)
    if isinstance(o.get("stats"), list):
        yield _with(case, [key, "stats"], True)
        yield _with(case, [key, "stats"], False)


def column_moves(col):
    """Simpler variants of one column spec."""
    if (col.get("null") or {}).get("pat", "none") != "none":
        c = copy.deepcopy(col)
        c["null"] = {"pat": "none", "mask": []}
        yield c
        if col["null"]["pat"] == "some":
            for pat in ("first_only", "last_only", "all"):
                c = copy.deepcopy(col)
                c["null"] = {"pat": pat, "mask": []}
                yield c
    idx = col.get("idx") or [0]
    if len(idx) > 1:
        for new in ([idx[0]], idx[: len(idx) // 2], idx[len(idx) // 2:], idx[:-1], idx[1:]):
            if new and new != idx:
                c = copy.deepcopy(col)
                c["idx"] = new
                yield c
    pk = "cats" if col["kind"] == "category" else "pool"
    pool = col.get(pk) or []
    if len(pool) > 1:
        for new in ([pool[0]], pool[: len(pool) // 2], pool[len(pool) // 2:], pool[:-1], pool[1:]):
            if new and new != pool:
                c = copy.deepcopy(col)
                c[pk] = new
                yield c
    # simpler values
    for i, v in enumerate(pool):
        for s in simpler_values(col, v):
            if s != v and s not in (pool if pk == "cats" else []):
                c = copy.deepcopy(col)
                c[pk][i] = s
                yield c
    if col.get("tz"):
        c = copy.deepcopy(col)
        c["tz"] = "UTC" if col["tz"] != "UTC" else None
        yield c
    if col.get("ordered"):
        c = copy.deepcopy(col)
        c["ordered"] = False
        yield c


def simpler_values(col, v):
    k = col["kind"]
    if isinstance(v, bool):
        return [False] if v else []
    if isinstance(v, int):
        out = [0, 1, v // 2, v // 1000]
        return [x for x in out if abs(x) < abs(v)]
    if isinstance(v, float):
        if v != v or v in (float("inf"), float("-inf")):
            return [0.0, 1.0]
        return [x for x in (0.0, 1.0, float(int(v))) if x != v and abs(x) <= abs(v)]
    if isinstance(v, str):
        if k == "bytes":
            return [v[:2], ""] if len(v) > 2 else ([""] if v else [])
        out = []
        if len(v) > 1:
            out += [v[:1], v[: len(v) // 2]]
        if v and v != "a":
            out.append("a")
        return out
    if isinstance(v, list) and v:
        return [[], v[:1]]
    if isinstance(v, dict) and v:
        return [{}]
    return []


def frame_moves(fr):
    """Simpler frame cases."""
    n = fr["n"]
    for new_n in sorted({0, 1, 2, n // 2, n - 1, 8, 9, 17}):
        if 0 <= new_n < n:
            f = copy.deepcopy(fr)
            f["n"] = new_n
            yield f
    if fr.get("index") is not None:
        f = copy.deepcopy(fr)
        f["index"] = None
        yield f
    cols = fr["cols"]
    if len(cols) > 1:
        for i in range(len(cols)):
            f = copy.deepcopy(fr)
            del f["cols"][i]
            yield f
    for i, c in enumerate(cols):
        for nc in column_moves(c):
            f = copy.deepcopy(fr)
            f["cols"][i] = nc
            yield f
    if fr.get("index") is not None:
        for nc in column_moves(fr["index"]):
            f = copy.deepcopy(fr)
            f["index"] = nc
            yield f


def frame_opts_moves(case):
    for c in opts_moves(case):
        yield c
    for f in frame_moves(case["frame"]):
        c = copy.deepcopy(case)
        c["frame"] = f
        # keep option references to columns consistent
        names = {x["name"] for x in f["cols"]}
        o = c.get("opts") or {}
        for k in ("has_nulls", "stats"):
            if isinstance(o.get(k), list):
                o[k] = [x for x in o[k] if x in names]
        if isinstance(o.get("rgo"), list):
            o["rgo"] = [x for x in o["rgo"] if x == 0 or x < f["n"]] or [0]
        yield c


def list_moves(lst, min_len=0):
    """ddmin-ish deletions over a list."""
    n = len(lst)
    if n <= min_len:
        return
    half = n // 2
    if half >= 1 and n - half >= min_len:
        yield lst[:half] if half >= min_len else lst
        yield lst[half:]
    for i in range(n):
        if n - 1 >= min_len:
            yield lst[:i] + lst[i + 1:]


def abbreviate_col(c):
    d = {"name": c.get("name"), "kind": c["kind"]}
    for k in ("sub", "unit", "tz", "labels", "ordered"):
        if c.get(k) is not None:
            d[k] = c[k]
    pk = "cats" if c["kind"] == "category" else "pool"
    pool = c.get(pk) or []
    d[pk] = [(_short(v)) for v in pool[:4]] + (["...+%d" % (len(pool) - 4)] if len(pool) > 4 else [])
    d["null"] = (c.get("null") or {}).get("pat", "none")
    return d


def _short(v):
    s = repr(v)
    return v if len(s) <= 24 else s[:24] + "..."


def abbreviate_frame(fr):
    return {"n": fr["n"], "cols": [abbreviate_col(c) for c in fr["cols"]],
            "index": abbreviate_col(fr["index"]) if fr.get("index") else None}


def abbreviate_frame_case(case):
    out = {"frame": abbreviate_frame(case["frame"])}
    for k, v in case.items():
        if k != "frame":
            out[k] = v
    return out
