"""./check <ID> [--tier quick|thorough] [--replay FILE] [--workers N]

exit 0: property held on everything explored (known findings are printed as
        KNOWN-FINDING lines); exit 1: `VIOLATION property=<ID> replay=<path>`;
exit 2: harness error (never a VIOLATION line)."""
import argparse
import importlib
import json
import os
import sys
import time
import traceback

from vf import common


def main(argv=None):
    ap = argparse.ArgumentParser()
    ap.add_argument("prop")
    ap.add_argument("--tier", default=os.environ.get("VERIF_TIER") or "quick", choices=["quick", "thorough"])
    ap.add_argument("--replay")
    ap.add_argument("--raw", action="store_true", help="with --replay: print the raw outcome only")
    ap.add_argument("--workers", type=int)
    ap.add_argument("--examples", type=int, help="override examples per shard")
    ap.add_argument("--no-shrink", action="store_true")
    args = ap.parse_args(argv)
    os.chdir(common.VERIF)
    if _wants_sanitizer(args.prop) and os.environ.get("VF_EXT_VARIANT") != "asan":
        return _reexec_sanitized(argv if argv is not None else sys.argv[1:])
    try:
        common.bootstrap()
        from vf import evidence, findings, runner
        mod = importlib.import_module("vf.props." + args.prop.lower())
    except Exception:
        print("HARNESS-ERROR while loading %s:\n%s" % (args.prop, traceback.format_exc()))
        return 2
    seed = common.verif_seed()
    if args.replay:
        return _replay(mod, args, runner, findings)
    try:
        return _campaign(mod, args, seed, runner, findings, evidence)
    except Exception:
        print("HARNESS-ERROR in %s:\n%s" % (mod.ID, traceback.format_exc()))
        return 2


def _wants_sanitizer(prop):
    p = os.path.join(common.VERIF, "vf", "props", prop.lower() + ".py")
    try:
        with open(p) as f:
            return "\nSANITIZED = True" in f.read()
    except OSError:
        return False


def _reexec_sanitized(argv):
    """Run this very command again inside a process that loads the ASan+UBSan build of the
    extension modules (LD_PRELOAD of the ASan runtime; reports go to per-process log files)."""
    import shutil
    import subprocess
    import tempfile
    from vf import extsync
    try:
        extsync.resolve("asan")          # build (or find in the cache) before anything runs
    except Exception:
        print("HARNESS-ERROR: cannot make the sanitised build:\n%s" % traceback.format_exc())
        return 2
    base = "/dev/shm" if os.path.isdir("/dev/shm") and os.access("/dev/shm", os.W_OK) else None
    logdir = tempfile.mkdtemp(prefix="vf-san-", dir=base)
    env = extsync.asan_env()
    env["VF_ASAN_LOGDIR"] = logdir
    env["ASAN_OPTIONS"] += ":log_path=%s/san:log_exe_name=0" % logdir
    env["UBSAN_OPTIONS"] += ":log_path=%s/san" % logdir
    try:
        r = subprocess.run([sys.executable, "-m", "vf.cli"] + list(argv), env=env, cwd=common.VERIF)
        return r.returncode if r.returncode in (0, 1, 2) else 2
    finally:
        shutil.rmtree(logdir, ignore_errors=True)


def _replay(mod, args, runner, findings):
    with open(args.replay) as f:
        obj = json.load(f)
    case = obj["case"] if isinstance(obj, dict) and "case" in obj and "property" in obj else obj
    out = runner.safe_run(mod, case)
    if args.raw:
        print("OUTCOME " + json.dumps(out, default=str))
        return 0 if out["st"] != "harness" else 2
    if out["st"] == "harness":
        print("HARNESS-ERROR:\n" + out["detail"])
        return 2
    if out["st"] == "viol":
        kf = findings.match(mod.ID, case, out)
        if kf is not None:
            print("KNOWN-FINDING: property=%s %s: %s" % (mod.ID, kf["id"], kf["what"]))
            return 0
        print("signature: %s\n%s" % (out["sig"], out.get("detail", "")))
        print("VIOLATION property=%s replay=%s" % (mod.ID, args.replay))
        return 1
    print("replay outcome: %s %s" % (out["st"], out.get("reason", "")))
    return 0


def _campaign(mod, args, seed, runner, findings, evidence):
    t0 = time.time()
    tier = args.tier
    if args.examples:
        mod.BUDGET[tier]["examples"] = args.examples
    pre = getattr(mod, "prepare", None)
    if pre is not None:
        pre(tier)
    camp = runner.Campaign(mod, tier, seed, args.workers)
    camp.run_replays()
    camp.run_shards()
    camp.run_probes()
    tot = camp.total
    known = findings.load()

    if tot.harness or camp.harness_msgs:
        for case, det in tot.harness[:3]:
            print("HARNESS-ERROR in run_case:\n%s\ncase=%s" % (det, common.canon(case)[:1500]))
        for m in camp.harness_msgs[:3]:
            print("HARNESS-ERROR: " + m)
        _write_evidence(mod, camp, tier, seed, t0, evidence, {}, {}, harness=True)
        return 2

    # A time limit hit while 16 shards (and whatever else) shared the machine is not yet a hang: the case is run again,
    # alone, with a three times longer limit.  If it finishes, the campaign is inconclusive for that case, not violated.
    slow = []
    if "hang" in tot.viols:
        still = []
        for case, out in tot.viols.pop("hang"):
            if still:
                still.append((case, out))      # one confirmed hang is enough
                continue
            again = _rerun_alone(mod, case, runner)
            if again.get("st") == "viol" and again.get("sig") == "hang":
                still.append((case, again))
            elif again.get("st") == "viol":
                tot.viols.setdefault(again["sig"], []).append((case, again))
                tot.viol_counts[again["sig"]] += 1
            elif again.get("st") == "harness":
                print("HARNESS-ERROR re-running a timed-out case:\n%s" % again.get("detail"))
                return 2
            else:
                slow.append(common.case_hash(case))
        if still:
            tot.viols["hang"] = still
        else:
            tot.viol_counts.pop("hang", None)
        if slow:
            tot.inconclusive = True
            tot.labels["timeout_under_load_finished_alone"] += len(slow)
            print("note: %d case(s) hit the %d s limit under load and finished when run alone (inconclusive, not a violation)"
                  % (len(slow), runner.CASE_TIMEOUT_S))

    # bucket -> known finding or unexplained
    known_seen = {}
    unexplained = {}
    for sig, lst in sorted(tot.viols.items()):
        rest = []
        for case, out in lst:
            kf = findings.match(mod.ID, case, out, known)
            if kf is not None:
                known_seen.setdefault(kf["id"], {"what": kf["what"], "count": 0, "sigs": set()})
                known_seen[kf["id"]]["sigs"].add(sig)
            else:
                rest.append((case, out))
        if rest:
            unexplained[sig] = rest
    for fid, info in known_seen.items():
        info["count"] = sum(tot.viol_counts[s] for s in info["sigs"])
        info["sigs"] = sorted(info["sigs"])
        print("KNOWN-FINDING: property=%s %s: %s" % (mod.ID, fid, info["what"]))

    replay_paths = {}
    if unexplained:
        os.makedirs(os.path.join(common.REPLAYS, mod.ID), exist_ok=True)
        per_bucket = 8 if tier == "quick" else 60
        shrink_deadline = time.time() + (60 if tier == "quick" else 900)     # for all buckets together
        isolated = getattr(mod, "REPLAY_ISOLATED", False)
        for sig, lst in sorted(unexplained.items()):
            lst.sort(key=lambda co: len(common.canon(co[0])))
            case, out = lst[0]
            steps = 0
            if not args.no_shrink and not sig.startswith("crash") and not sig.startswith("hang") and time.time() < shrink_deadline:
                case, steps = runner.shrink(mod, case, sig, min(per_bucket, max(1, shrink_deadline - time.time())),
                                            runner=(camp._isolated if isolated else None))
            if steps:
                # describe the shrunk case, not the original one
                again = camp._isolated(case) if isolated else runner.run_in_child(mod, [case])[0]
                if again.get("st") == "viol" and again.get("sig") == sig:
                    out = again
            h = common.case_hash({"sig": sig})
            path = os.path.join("replays", mod.ID, "found-%s.json" % h)
            with open(os.path.join(common.VERIF, path), "w") as f:
                json.dump({"property": mod.ID, "signature": sig, "detail": out.get("detail", ""),
                           "shrink_steps": steps, "count_in_run": tot.viol_counts[sig], "case": case},
                          f, indent=1, default=str)
            replay_paths[sig] = path
            print("--- %s (x%d)\n%s" % (sig, tot.viol_counts[sig], out.get("detail", "")[:1200]))
            print("VIOLATION property=%s replay=%s" % (mod.ID, path))

    _write_evidence(mod, camp, tier, seed, t0, evidence, known_seen, replay_paths)
    status = "inconclusive(ran %d of %d planned within budget)" % (tot.evals, tot.planned + camp.replayed) \
        if tot.inconclusive else "complete"
    print("%s %s seed=%d: %d cases (%d distinct non-trivial), %d discarded, %d violation bucket(s), "
          "%d known finding(s), %s, %.1fs" % (mod.ID, tier, seed, tot.evals, len(tot.nt),
                                                sum(tot.discards.values()), len(unexplained), len(known_seen),
                                                status, time.time() - t0))
    return 1 if unexplained else 0


def _rerun_alone(mod, case, runner):
    import subprocess
    import tempfile
    with tempfile.TemporaryDirectory() as d:
        p = os.path.join(d, "case.json")
        with open(p, "w") as f:
            json.dump({"property": mod.ID, "case": case}, f, default=str)
        env = dict(os.environ, VF_CASE_TIMEOUT=str(runner.CASE_TIMEOUT_S * 3), VF_NO_REEXEC_NOTE="1")
        try:
            r = subprocess.run([sys.executable, "-m", "vf.cli", mod.ID, "--replay", p, "--raw"], capture_output=True, text=True,
                               env=env, cwd=common.VERIF, timeout=runner.CASE_TIMEOUT_S * 3 + 120)
        except subprocess.TimeoutExpired:
            return {"st": "viol", "sig": "hang", "detail": "case did not finish within %d s when run alone" % (runner.CASE_TIMEOUT_S * 3)}
        for line in r.stdout.splitlines():
            if line.startswith("OUTCOME "):
                return json.loads(line[8:])
        return {"st": "viol", "sig": "crash:exit%d" % r.returncode, "detail": (r.stdout + r.stderr)[-1500:]}


def _write_evidence(mod, camp, tier, seed, t0, evidence, known_seen, replay_paths, harness=False):
    tot = camp.total
    cov = {
        "evaluations": tot.evals,
        "distinct_nontrivial": len(tot.nt),
        "rule": mod.RULE,
        "samples": tot.samples[:8],
        "labels": dict(sorted(tot.labels.items())),
        "discarded": dict(tot.discards),
        "violation_buckets": {s: {"count": tot.viol_counts[s], "replay": replay_paths.get(s)}
                              for s in sorted(tot.viol_counts)},
        "known_findings_seen": known_seen,
        "probes": camp.probe_results,
        "replayed_committed_inputs": camp.replayed,
        "planned": tot.planned + camp.replayed,
        "inconclusive_budget_hit": bool(tot.inconclusive),
        "slowest_case_s": round(tot.slowest[0], 2),
        "slowest_case": tot.slowest[1],
        "exhaustive": bool(getattr(mod, "EXHAUSTIVE", False)) and not tot.inconclusive,
        "tree": common.tree_fingerprint(),
        "generator": "hypothesis %s" % _hyp_version() if hasattr(mod, "strategy") else "enumeration",
    }
    extra = getattr(mod, "evidence_extra", None)
    if extra is not None:
        cov.update(extra(tier))
    if harness:
        cov["harness_error"] = True
    try:
        evidence.write(mod.ID, tier, seed, mod.LEVEL, cov, getattr(mod, "ASSUMPTIONS", []),
                       time.time() - t0, len(replay_paths))
    except AssertionError as e:
        print("evidence not valid for level (too few non-trivial cases?): %r" % (e,))


def _hyp_version():
    import hypothesis
    return hypothesis.__version__


if __name__ == "__main__":
    sys.exit(main())
