"""Campaign runner shared by all property checks.

A property module (vf/props/cNN.py) provides

    ID, LEVEL, RULE, ASSUMPTIONS, BUDGET = {"quick": {...}, "thorough": {...}}
    run_case(case) -> outcome dict (see ok/viol/discard below); never raises for a
                      property violation
    strategy(tier)           -> Hypothesis strategy of JSON-able cases      (optional)
    enumerate_cases(tier)    -> iterable of cases, enumerated exhaustively   (optional)
    probes()                 -> [(finding_id, case)] minimal inputs of known findings
                                that the campaign is steered away from        (optional)
    shrink_moves(case)       -> iterable of simpler candidate cases          (optional)
    abbreviate(case)         -> short JSON-able description for evidence     (optional)

Hypothesis is used as generator/collector: the generate phase runs all N cases and
records every outcome (a tree with known defects must be searched *past* them);
violations are bucketed by signature, matched against known-finding predicates,
and every unexplained bucket is shrunk (greedy structural ddmin through the
module's own moves) into a replay file.
"""
import collections
import importlib
import json
import multiprocessing
import os
import pickle
import signal
import sys
import time
import traceback

from vf import common

CASE_TIMEOUT_S = int(os.environ.get("VF_CASE_TIMEOUT", "180"))
_TIMED_OUT = [False]


# ---------------------------------------------------------------- outcomes
def ok(nontrivial=False, labels=()):
    return {"st": "ok", "nt": bool(nontrivial), "labels": list(labels)}


def viol(sig, detail="", nontrivial=True, labels=(), **extra):
    d = {"st": "viol", "sig": str(sig), "detail": str(detail)[:2000], "nt": bool(nontrivial),
         "labels": list(labels)}
    d.update(extra)
    return d


def discard(reason, labels=()):
    return {"st": "discard", "reason": str(reason), "nt": False, "labels": list(labels)}


def exc_sig(e):
    """Type of the exception plus the innermost frame inside the tested package."""
    tb = traceback.extract_tb(e.__traceback__)
    where = "?"
    for fr in tb:
        fn = fr.filename.replace("\\", "/")
        if "/fastparquet/" in fn and "/vf/" not in fn:
            where = "%s:%s" % (os.path.basename(fn), fr.name)
    return "%s@%s" % (type(e).__name__, where)


def exc_detail(e):
    return "".join(traceback.format_exception(type(e), e, e.__traceback__))[-1800:]


class CaseTimeout(Exception):
    pass


class _Stop(BaseException):
    pass


def _alarm(signum, frame):
    _TIMED_OUT[0] = True
    raise CaseTimeout()


def safe_run(mod, case):
    """run_case with the harness-error / hang classification around it."""
    signal.signal(signal.SIGALRM, _alarm)
    _TIMED_OUT[0] = False
    signal.alarm(CASE_TIMEOUT_S)
    try:
        out = mod.run_case(case)
        if not isinstance(out, dict) or "st" not in out:
            raise TypeError("run_case returned %r" % (out,))
        if _TIMED_OUT[0] and out["st"] != "ok":
            # the alarm went off inside a try/except of the oracle: whatever it made of it, this is a timeout
            return viol("hang", "case did not finish within %d s" % CASE_TIMEOUT_S)
        return out
    except CaseTimeout:
        return viol("hang", "case did not finish within %d s" % CASE_TIMEOUT_S)
    except Exception as e:  # harness error: generator / oracle bug
        if _TIMED_OUT[0]:
            return viol("hang", "case did not finish within %d s" % CASE_TIMEOUT_S)
        return {"st": "harness", "detail": exc_detail(e), "nt": False, "labels": []}
    finally:
        signal.alarm(0)


# ---------------------------------------------------------------- shard worker
class ShardResult:
    def __init__(self):
        self.evals = 0
        self.okc = 0
        self.labels = collections.Counter()
        self.discards = collections.Counter()
        self.viols = {}            # sig -> list of (case, outcome), capped
        self.viol_counts = collections.Counter()
        self.nt = set()
        self.samples = []
        self.harness = []
        self.inconclusive = False
        self.planned = 0
        self.slowest = (0.0, None)

    def record(self, mod, case, out):
        # a case may stand for several executions (e.g. one dataset shape x every fault
        # point): `sub_evals` executions, of which `sub_nt` (distinct tags) were non-trivial
        self.evals += int(out.get("sub_evals") or 1)
        if out.get("sub_nt"):
            h0 = common.case_hash(case)
            for tag in out["sub_nt"]:
                self.nt.add("%s:%s" % (h0, tag))
        for l in out.get("labels", ()):
            self.labels[l] += 1
        st = out["st"]
        if st == "harness":
            if len(self.harness) < 5:
                self.harness.append((case, out["detail"]))
            return
        if st == "discard":
            self.discards[out["reason"]] += 1
            return
        h = None
        if out.get("nt"):
            h = common.case_hash(case)
            self.nt.add(h)
            if len(self.samples) < 4:
                self.samples.append(_abbrev(mod, case))
        if st == "ok":
            self.okc += 1
        elif st == "viol":
            self.viol_counts[out["sig"]] += 1
            lst = self.viols.setdefault(out["sig"], [])
            if len(lst) < 6:
                lst.append((case, out))


def _abbrev(mod, case):
    f = getattr(mod, "abbreviate", None)
    if f is not None:
        try:
            return f(case)
        except Exception:
            pass
    s = common.canon(case)
    return json.loads(s) if len(s) < 1500 else s[:1500] + "..."


def _quiet_fds():
    """The native thrift parser reports corrupt input with printf, possibly without end: children do not share the
    check's stdout (results travel through files and pipes)."""
    try:
        dn = os.open(os.devnull, os.O_WRONLY)
        os.dup2(dn, 1)
        os.close(dn)
    except OSError:
        pass


def _shard_main(modname, tier, kind, shard, nshards, seed, n_examples, deadline, respath, curpath):
    try:
        _quiet_fds()
        common.bootstrap()
        mod = importlib.import_module(modname)
        res = ShardResult()
        track = getattr(mod, "CRASH_TRACK", True)

        def one(case):
            if time.time() > deadline:
                raise _Stop()
            if track:
                with open(curpath, "w") as f:
                    f.write(common.canon(case))
            t0 = time.time()
            out = safe_run(mod, case)
            dt = time.time() - t0
            if dt > res.slowest[0]:
                res.slowest = (dt, case if dt > 5 else None)
            res.record(mod, case, out)

        if kind == "enum":
            cases = mod.enumerate_cases(tier)
            try:
                for i, case in enumerate(cases):
                    if i % nshards != shard:
                        continue
                    res.planned += 1
                    one(case)
            except _Stop:
                res.inconclusive = True
        else:
            import hypothesis
            from hypothesis import HealthCheck, Phase, given, settings
            res.planned = n_examples
            strat = mod.strategy(tier)

            @hypothesis.seed(seed)
            @settings(max_examples=n_examples, deadline=None, database=None, derandomize=False,
                      report_multiple_bugs=False, suppress_health_check=list(HealthCheck),
                      phases=[Phase.generate])
            @given(strat)
            def drive(case):
                one(case)

            try:
                drive()
            except _Stop:
                res.inconclusive = True
        if track and os.path.exists(curpath):
            os.unlink(curpath)
        with open(respath, "wb") as f:
            pickle.dump(res, f)
    except BaseException:
        with open(respath + ".err", "w") as f:
            f.write(traceback.format_exc())
        raise


class _PipeTimeout(Exception):
    pass


class _PipeReader:
    """readline()/read(n) over a pipe fd; raises _PipeTimeout when nothing arrives for `idle` seconds."""
    def __init__(self, fd, idle):
        self.fd, self.idle, self.buf, self.eof = fd, idle, b"", False

    def _fill(self):
        import select
        ready, _, _ = select.select([self.fd], [], [], self.idle)
        if not ready:
            raise _PipeTimeout()
        chunk = os.read(self.fd, 1 << 16)
        if not chunk:
            self.eof = True
        self.buf += chunk

    def readline(self):
        while b"\n" not in self.buf and not self.eof:
            self._fill()
        k = self.buf.find(b"\n")
        k = len(self.buf) if k < 0 else k + 1
        line, self.buf = self.buf[:k], self.buf[k:]
        return line

    def read(self, n):
        while len(self.buf) < n and not self.eof:
            self._fill()
        out, self.buf = self.buf[:n], self.buf[n:]
        return out


def run_in_child(mod, cases, timeout=900, deadline=None, stop_on_hang=False):
    """Evaluate cases in a forked child (one child for the whole list; a new one after a crash) so that a
    case that kills the interpreter cannot kill the check itself.  Returns outcomes in order."""
    results = [None] * len(cases)
    start = 0
    while start < len(cases):
        if deadline is not None and time.time() > deadline:
            break           # (cases not reached keep the outcome None)
        r, w = os.pipe()
        pid = os.fork()
        if pid == 0:
            os.close(r)
            _quiet_fds()
            try:
                with os.fdopen(w, "wb") as f:
                    for i in range(start, len(cases)):
                        f.write(b"S%d\n" % i)
                        f.flush()
                        out = safe_run(mod, cases[i])
                        blob = json.dumps(out, default=str).encode()
                        f.write(b"R%d %d\n" % (i, len(blob)) + blob + b"\n")
                        f.flush()
            finally:
                os._exit(0)
        os.close(w)
        last_started = None
        hung = False
        rd = _PipeReader(r, CASE_TIMEOUT_S + 90)
        try:
            while True:
                line = rd.readline()
                if not line:
                    break
                if line.startswith(b"S"):
                    last_started = int(line[1:])
                elif line.startswith(b"R"):
                    i, n = line[1:].split()
                    blob = rd.read(int(n))
                    rd.readline()
                    results[int(i)] = json.loads(blob)
        except _PipeTimeout:
            # a case stuck inside native code never sees the alarm
            os.kill(pid, signal.SIGKILL)
            hung = True
        finally:
            os.close(r)
        _, status = os.waitpid(pid, 0)
        done = [i for i in range(start, len(cases)) if results[i] is not None]
        if hung and last_started is not None and results[last_started] is None:
            results[last_started] = viol("hang", "case did not finish within %d s (stuck outside the interpreter; the child was killed)"
                                         % (CASE_TIMEOUT_S + 90))
            start = last_started + 1
            if stop_on_hang:
                break
        elif last_started is not None and results[last_started] is None:
            san = san_report(pid)
            code = -(status & 0x7f) if (status & 0x7f) else (status >> 8)
            results[last_started] = viol("crash:" + (san[0] if san else "exit%s" % code),
                                         "the interpreter died while running this case\n" + (san[1] if san else ""))
            start = last_started + 1
        else:
            start = (max(done) + 1) if done else len(cases)
            if start < len(cases) and last_started is None:
                break
    for i, r_ in enumerate(results):
        if r_ is None:
            results[i] = {"st": "harness", "detail": "child process produced no outcome", "nt": False, "labels": []}
    return results


# ---------------------------------------------------------------- campaign
class Campaign:
    def __init__(self, mod, tier, seed, workers=None):
        self.mod = mod
        self.tier = tier
        self.seed = seed
        self.budget = dict(mod.BUDGET[tier])
        self.workers = workers or self.budget.get("shards", 8)
        self.t0 = time.time()
        self.total = ShardResult()
        self.crashes = []
        self.harness_msgs = []
        self.replayed = 0
        self.probe_results = []

    # -- pieces
    def run_replays(self):
        d = os.path.join(common.REPLAYS, self.mod.ID)
        if not os.path.isdir(d):
            return
        cases = []
        for fn in sorted(os.listdir(d)):
            if not fn.endswith(".json"):
                continue
            with open(os.path.join(d, fn)) as f:
                obj = json.load(f)
            cases.append(obj["case"] if isinstance(obj, dict) and "case" in obj and "property" in obj else obj)
        if not cases:
            return
        # (in a forked child: a regression input may crash the interpreter on a changed tree)
        outs = run_in_child(self.mod, cases)
        for case, out in zip(cases, outs):
            out.setdefault("labels", []).append("replay")
            self.total.record(self.mod, case, out)
            self.replayed += 1

    def _isolated(self, case):
        """Run one case in a child process (for inputs that may crash the interpreter)."""
        import subprocess
        import tempfile
        with tempfile.NamedTemporaryFile("w", suffix=".json", dir=common.scratch_root(), delete=False) as f:
            f.write(common.canon(case))
            p = f.name
        env = dict(os.environ)
        env["PYTHONHASHSEED"] = "0"
        proc = subprocess.Popen([sys.executable, "-m", "vf.cli", self.mod.ID, "--replay", p, "--raw"],
                                stdout=subprocess.PIPE, stderr=subprocess.PIPE, text=True, cwd=common.VERIF, env=env)
        try:
            so, se = proc.communicate(timeout=600)
        except subprocess.TimeoutExpired:
            proc.kill()
            so, se = proc.communicate()
            os.unlink(p)
            return viol("hang", "isolated case did not finish within 600 s")
        os.unlink(p)
        for line in so.splitlines():
            if line.startswith("OUTCOME "):
                return json.loads(line[8:])
        san = san_report(proc.pid)
        if proc.returncode < 0 or proc.returncode > 2 or san or "AddressSanitizer" in (se or ""):
            sig = "crash:" + (san[0] if san else "exit%d" % proc.returncode)
            return viol(sig, (san[1] if san else "") + (se or "")[-1500:])
        return {"st": "harness", "detail": "isolated replay gave no outcome:\n" + so[-500:] + (se or "")[-1500:],
                "nt": False, "labels": []}

    def run_shards(self):
        mod = self.mod
        jobs = []
        deadline = self.t0 + self.budget.get("wall", 600)
        if hasattr(mod, "enumerate_cases"):
            n = self.workers
            for i in range(n):
                jobs.append(("enum", i, n, 0, 0))
        if hasattr(mod, "strategy"):
            n = self.workers
            per = max(1, self.budget.get("examples", 100))
            for i in range(n):
                jobs.append(("hyp", i, n, common.derive_seed(self.seed, mod.ID, self.tier, i), per))
        ctx = multiprocessing.get_context("fork")
        root = common.scratch_root()
        procs = []
        maxpar = min(self.budget.get("procs", 16), 16)
        pending = list(jobs)
        running = []
        idx = 0
        while pending or running:
            while pending and len(running) < maxpar:
                kind, shard, nsh, seed, per = pending.pop(0)
                respath = os.path.join(root, "res-%d.pkl" % idx)
                curpath = os.path.join(root, "cur-%d.json" % idx)
                p = ctx.Process(target=_shard_main, args=(mod.__name__, self.tier, kind, shard, nsh, seed, per,
                                                          deadline, respath, curpath))
                p.start()
                running.append((p, respath, curpath, kind, shard))
                idx += 1
            time.sleep(0.05)
            still = []
            for item in running:
                p, respath, curpath, kind, shard = item
                if p.is_alive():
                    # a case stuck inside native code never sees the alarm: the marker of the running case goes stale
                    try:
                        stale = time.time() - os.path.getmtime(curpath)
                    except OSError:
                        stale = 0
                    if stale > CASE_TIMEOUT_S + 90:
                        p.kill()
                        p.join()
                        self._collect(p, respath, curpath, kind, shard, hung=True)
                        continue
                    still.append(item)
                    continue
                p.join()
                self._collect(p, respath, curpath, kind, shard)
            running = still

    def _collect(self, p, respath, curpath, kind, shard, hung=False):
        if os.path.exists(respath) and not hung:
            with open(respath, "rb") as f:
                res = pickle.load(f)
            os.unlink(respath)
            self._merge(res)
            return
        if os.path.exists(respath + ".err"):
            with open(respath + ".err") as f:
                self.harness_msgs.append("shard %s/%d failed:\n%s" % (kind, shard, f.read()))
            return
        # the process died without a result: a crash of the interpreter
        case = None
        if os.path.exists(curpath):
            with open(curpath) as f:
                try:
                    case = json.loads(f.read())
                except Exception:
                    case = None
        self.crashes.append((p.exitcode, case))
        san = san_report(p.pid)
        if hung:
            out = viol("hang", "case did not finish within %d s (stuck outside the interpreter; the worker was killed)" % (CASE_TIMEOUT_S + 90))
        else:
            out = viol("crash:" + (san[0] if san else "exit%s" % p.exitcode),
                       "worker process died (exit code %s) while running this case\n%s" % (p.exitcode, san[1] if san else ""))
        if case is not None:
            self.total.record(self.mod, case, out)
        else:
            self.harness_msgs.append("shard %s/%d died with exit code %s and left no case marker" % (kind, shard, p.exitcode))
        self.total.inconclusive = True

    def _merge(self, res):
        t = self.total
        t.evals += res.evals
        t.okc += res.okc
        t.labels.update(res.labels)
        t.discards.update(res.discards)
        t.viol_counts.update(res.viol_counts)
        for sig, lst in res.viols.items():
            cur = t.viols.setdefault(sig, [])
            cur.extend(lst[: max(0, 6 - len(cur))])
        t.nt |= res.nt
        for s in res.samples:
            if len(t.samples) < 8:
                t.samples.append(s)
        t.harness.extend(res.harness[: max(0, 5 - len(t.harness))])
        t.inconclusive = t.inconclusive or res.inconclusive
        t.planned += res.planned
        if res.slowest[0] > t.slowest[0]:
            t.slowest = res.slowest

    def run_probes(self):
        """Re-execute the minimal input of every open known finding the campaign steers around."""
        f = getattr(self.mod, "probes", None)
        if f is None:
            return
        for fid, case in f():
            out = self._isolated(case) if getattr(self.mod, "PROBE_ISOLATED", False) else safe_run(self.mod, case)
            out.setdefault("labels", []).append("probe")
            out["probe_of"] = fid
            self.total.record(self.mod, case, out)
            self.probe_results.append((fid, out["st"]))


def san_report(pid):
    """(signature, text) of the sanitizer log a (dead) process left behind, if any."""
    d = os.environ.get("VF_ASAN_LOGDIR")
    if not d:
        return None
    p = os.path.join(d, "san.%d" % pid)
    try:
        with open(p, "rb") as f:
            txt = f.read().decode("utf8", "replace")
    except OSError:
        return None
    if not txt.strip():
        return None
    from vf.props.c12 import parse_report
    return parse_report(txt)


def shrink(mod, case, sig, budget_s, isolated=False, runner=None):
    moves = getattr(mod, "shrink_moves", None)
    if moves is None:
        return case, 0
    deadline = time.time() + budget_s
    best = case
    steps = 0
    improved = True
    while improved and time.time() < deadline:
        improved = False
        batch = []
        for cand in moves(best):
            batch.append(cand)
            if len(batch) >= 40:
                break
        if not batch:
            break
        # candidates are evaluated in a forked child: one of them may crash the interpreter
        if runner:
            outs = []
            for c in batch:
                if time.time() > deadline:
                    break
                outs.append(runner(c))
        else:
            # (a candidate that hangs in native code costs minutes: shrinking stops there)
            outs = run_in_child(mod, batch, deadline=deadline, stop_on_hang=True)
        for cand, out in zip(batch, outs):
            if out is None:
                continue
            if out["st"] == "viol" and out["sig"] == sig:
                best = cand
                steps += 1
                improved = True
                break
    return best, steps
