"""Predicates recognising each *open* known finding from (case, outcome): the
specific input features and failing call site of that defect, nothing broader."""
from vf.findings import predicate


def _cols(case):
    fr = case.get("frame") or {}
    return list(fr.get("cols") or []) + ([fr["index"]] if fr.get("index") else [])


@predicate
def c01_empty_categorical(case, out):
    return (case["frame"]["n"] == 0 and out["sig"].startswith("diff|categories|")
            and any(c["kind"] == "category" for c in _cols(case)))
