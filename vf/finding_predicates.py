"""Predicates recognising each *open* known finding from (case, outcome): the
specific input features and failing call site of that defect, nothing broader."""
from vf.findings import predicate


def _cols(case):
    fr = case.get("frame") or {}
    return list(fr.get("cols") or []) + ([fr["index"]] if fr.get("index") else [])


@predicate
def c01_empty_categorical(case, out):
    return (case["frame"]["n"] == 0 and out["sig"].startswith("diff|categories|")
            and any(c["kind"] == "category" for c in _cols(case)))


def _coercible(t):
    """Would the library's partition-value coercion turn this text into a non-text value?"""
    import pandas as pd
    if t in ("now", "NOW", "TODAY", "") or t.lower() in ("nan", "nat"):
        return False
    if t in ("True", "False"):
        return True
    for f in (lambda x: int(x, 10), float, pd.Timestamp, pd.Timedelta):
        try:
            f(t)
            return True
        except Exception:
            continue
    return False


@predicate
def c08_drill_mixed_text(case, out):
    if case["opts"].get("file_scheme") != "drill":
        return False
    if not out["sig"].startswith("read_raised|ValueError@core.py:read_row_group|drill"):
        return False
    if "is not in list" not in out.get("detail", ""):
        return False
    return drill_mixed_labels(case)


def drill_mixed_labels(case):
    """Some text / category partition column has labels of which some parse as numbers/dates and some do not."""
    cols = {c["name"]: c for c in case["frame"]["cols"]}
    for p in case["partition_on"]:
        c = cols[p]
        if c["kind"] in ("text", "category"):
            labels = [str(x) for x in (c["cats"] if c["kind"] == "category" else c["pool"])]
            kinds = {_coercible(t) for t in labels}
            if kinds == {True, False}:
                return True
    return False


@predicate
def c05_not_in_bound(case, out):
    """`not in` prunes a row group as soon as its min or max is in the list (api.filter_not_in);
    the repository's own test_in_filters pins this behaviour, so it is recorded, not repaired."""
    sig = out["sig"]
    if sig.startswith("unit_unsound|not in|"):
        op, val, vmin, vmax = case["unit"]
        return bool(val) and ((vmin is not None and vmin in val) or (vmax is not None and vmax in val)) \
            and not (vmin is not None and vmin == vmax)
    return sig.startswith("lost|") and sig.endswith("|notin_bound")


@predicate
def c13_not_in_bound(case, out):
    """Same root cause as C05-not-in-bound: the row group is pruned before rows are looked at."""
    return out["sig"].startswith("lost_rows|") and out["sig"].endswith("|notin_bound")


def _v2_rowfilter_region(case):
    """data page v2 + row selection, where the chunk has nulls or several pages."""
    if case["opts"].get("dpv", 1) != 2:
        return False
    from vf import cases
    fr = case["frame"]
    return (bool(case["opts"].get("page_size")) or any(cases.has_missing(c, fr["n"]) for c in fr["cols"])
            or any(c["kind"] == "category" for c in fr["cols"]))


@predicate
def c13_v2_rowfilter(case, out):
    sig = out["sig"]
    if not _v2_rowfilter_region(case):
        return False
    return ("read_data_page_v2" in sig or sig.startswith(("alignment|", "mask_alignment|", "mask_rows", "lost_rows|",
                                                         "extra_rows|", "duplicate_rows|", "order")))


def _cat_lists_differ(batches, partition_on=()):
    names = [c["name"] for c in batches[0]["cols"] if c["kind"] == "category" and c["name"] not in partition_on]
    for nm in names:
        lists = [next(c["cats"] for c in b["cols"] if c["name"] == nm) for b in batches]
        if any(l != lists[0] for l in lists[1:]):
            return True
    return False


def _cat_lists_not_prefixes_of_last(batches, partition_on=()):
    """Every row is labelled through the dictionary written last: that is right exactly when each batch's category list
    is a prefix of the last batch's list (same labels at the same codes); anything else is the recorded finding's region."""
    names = [c["name"] for c in batches[0]["cols"] if c["kind"] == "category" and c["name"] not in partition_on]
    for nm in names:
        lists = [next(c["cats"] for c in b["cols"] if c["name"] == nm) for b in batches]
        last = lists[-1]
        if any(l != last[: len(l)] for l in lists):
            return True
    return False


@predicate
def c07_categorical_dictionaries(case, out):
    """Row groups written from batches whose categorical columns list different categories: every
    row is labelled through the dictionary of the last row group read."""
    sig = out["sig"]
    if not (sig.startswith("value|category:") or sig.startswith("read_raised|stepN") or sig.startswith("celltype|category")):
        return False
    if sig.startswith("read_raised") and "category" not in out.get("detail", "").lower() and "IndexError" not in sig:
        return False
    # the state that was read: the create batch and the appends up to the one after which the check failed
    import re
    m = re.match(r"after append (\d+)", out.get("detail", ""))
    upto = [int(m.group(1)) + 1] if m else range(2, len(case["batches"]) + 1)
    return any(_cat_lists_not_prefixes_of_last(case["batches"][:k], case.get("partition_on") or ()) for k in upto)


@predicate
def c10_narrow_int_wire_type(case, out):
    """i8 / i16 fields (IntType.bitWidth, RowGroup.ordinal) are written with the i32 or i64 wire type:
    cencoding.write_thrift knows only bool / i32 / i64 / binary / list / struct."""
    sig = out["sig"]
    if not sig.startswith("conformance|wire_type|"):
        return False
    field = sig.split("|")[2]
    from vf.props import c10
    I = c10._idl()
    sname, fname = field.split(".")
    f = next((f for f in I.structs.get(sname, []) if f.name == fname), None)
    return f is not None and f.type[0] in ("byte", "i16")


@predicate
def c10_field_14_dropped(case, out):
    """cencoding.write_thrift iterates field ids 1..13: ColumnMetaData.bloom_filter_offset and
    LogicalType.UUID (both id 14) are dropped when a structure is (re-)serialised."""
    sig = out["sig"]
    from vf.props import c10
    if sig.startswith("lost_field|"):
        return sig.split("|")[1] in ("bloom_filter_offset", "UUID")
    if sig.startswith(("conformance|union_arity|LogicalType", "conformance|missing_required|", "roundtrip_not_equal|", "copy_differs|")):
        return c10.has_field14(case["struct"], case["value"])
    return False


def _beyond_pinned_buffer(case):
    """The to_bytes finding is exactly: the structure serialises to more bytes than the buffer the pinned tree
    allocates for it (500000, or the RowGroup / FileMetaData estimate).  A value that fits and still overflows is a
    different defect and is reported."""
    from vf.props import c10
    n = c10.reference_size(case)
    return n is not None and n > c10.pinned_buffer_size(case)


@predicate
def c10_to_bytes_overflow(case, out):
    """ThriftObject.to_bytes serialises into a 500000-byte buffer (larger only for RowGroup/FileMetaData by a
    heuristic); a longer structure is memcpy'd past its end."""
    return bool(case.get("allow_big")) and _beyond_pinned_buffer(case) and (out["sig"].startswith("crash") or out["sig"].startswith(("not_thrift", "reparse_raised", "roundtrip", "trailing", "value_changed", "lost_field", "conformance")))


def _c03_features(case):
    from vf.refpq import writer
    try:
        return writer.write_with_model(case["plan"])[1].features
    except Exception:
        return {}


@predicate
def c03_fixed_len_trailing_nul(case, out):
    """FIXED_LEN_BYTE_ARRAY values are returned as a numpy 'S<n>' array, whose items lose their trailing NUL bytes."""
    if not out["sig"].startswith("value|fixed5"):
        return False
    for rg in case["plan"]["row_groups"]:
        for c in case["cols"]:
            if c["kind"] == "fixed5":
                for v in rg["data"].get(c["name"], []):
                    if isinstance(v, dict) and v.get("hex", "").endswith("00"):
                        return True
    return False


@predicate
def c03_index_width(case, out):
    """cencoding.read_bitpacked keeps its bit buffer in 32 bits: dictionary index widths >= 25 decode wrongly."""
    f = _c03_features(case)
    return (f.get("max_dict_bit_width") or 0) >= 25 and out["sig"].startswith(("value|", "read_raised|", "missing|", "crash"))


@predicate
def c03_delta_width(case, out):
    """cencoding.delta_read_bitpacked: int8 bit counters / 64-bit buffer: miniblock widths >= 29 decode wrongly, large widths segfault."""
    f = _c03_features(case)
    return max(f.get("delta_widths") or [0]) >= 29 and out["sig"].startswith(("value|", "read_raised|", "missing|", "crash", "hang"))


@predicate
def c15_v2_nested(case, out):
    has_v2 = any(p.get("version", 1) == 2 for rg in case["plan"]["row_groups"] for cp in rg.get("chunks", {}).values()
                 for p in cp.get("pages", []))
    if not has_v2 or v2_nested_working_region(case):
        return False
    sig = out["sig"]
    return sig.startswith(("read_raised|", "row_type|", "list_length|", "element|", "null_row|", "map_", "length|")) and "v2" in sig


def v2_nested_working_region(case):
    """Every DATA_PAGE_V2 page of the file is dictionary-encoded and holds at least one null, and the columns stored in
    v2 pages are OPTIONAL at the outer level: the layout core.read_data_page_v2 does assemble on the pinned tree (surveyed:
    133 list and 48 map files inside this region all read correctly, everything outside fails one way or another)."""
    from vf.refpq import reader, writer
    try:
        pd_ = reader.read(writer.write(case["plan"]))
    except Exception:
        return False
    outer = {c["name"]: bool(c.get("outer_opt")) for c in case["cols"]}
    seen = False
    for rg in pd_.row_groups:
        for ch in rg.chunks.values():
            for p in ch.pages:
                if p.kind != "v2":
                    continue
                seen = True
                top = ch.leaf.path[0] if isinstance(ch.leaf.path, (tuple, list)) else str(ch.leaf.path).split(".")[0]
                if "DICT" not in str(p.encoding) or not p.num_values or not outer.get(top, False):
                    return False
                if not any(d < ch.leaf.max_def for d in (p.def_levels or [])):
                    return False
    return seen


@predicate
def c15_legacy_2level(case, out):
    return any(c.get("layout", "3level") != "3level" for c in case["cols"]) and out["sig"].startswith(("row_type|", "null_row|", "read_raised|", "list_length|", "element|"))


def _continuation_of_nulls(case):
    """Does some v1 page start with the continuation of a row that, up to the next row start,
    holds no value (only null elements)?"""
    from vf.refpq import reader, writer
    try:
        pd_ = reader.read(writer.write(case["plan"]))
    except Exception:
        return False
    for rg in pd_.row_groups:
        for ch in rg.chunks.values():
            pages = [p for p in ch.pages if p.kind in ("v1", "v2")]
            for i, p in enumerate(pages):
                if i == 0 or not p.rep_levels or p.rep_levels[0] == 0:
                    continue
                k = 0
                while k < len(p.rep_levels) and p.rep_levels[k] != 0:
                    k += 1
                if all(d < ch.leaf.max_def for d in (p.def_levels or [])[:k]):
                    return True
    return False


@predicate
def c15_continuation_nulls(case, out):
    """cencoding._assemble_objects extends the previous page's last row only `if vali > 0`: a continuation
    made of null elements only is dropped from its row (and leaks into the next one)."""
    sig = out["sig"]
    if not sig.startswith(("list_length|", "element|", "map_size|", "map_value|", "map_key|", "null_row|", "row_type|")):
        return False
    return _continuation_of_nulls(case)


@predicate
def c11_bitpacked_width(case, out):
    """cencoding.read_bitpacked holds < 32 bits of state: widths >= 25 lose the top bits of some values."""
    return case.get("f") == "read_bitpacked" and case.get("width", 0) >= 25 and out["sig"].startswith(("read_bitpacked|value", "read_bitpacked|consumed", "crash"))


@predicate
def c11_delta_width(case, out):
    """cencoding.delta_read_bitpacked: widths >= 29 decode wrongly (int8 bit counters), the largest ones read out of bounds."""
    return case.get("f") == "delta" and case.get("width", 0) >= 29 and out["sig"].startswith(("delta|value", "delta|raised", "delta|overrun", "crash", "hang"))


@predicate
def c11_encode_width(case, out):
    """cencoding.encode_bitpacked accumulates in a 32-bit int: widths >= 25 produce streams that do not decode to the input."""
    return case.get("f") == "encode" and case.get("width", 0) >= 25 and out["sig"].startswith("encode_rle_bp|value|w>=25")


def _c12_inner(case):
    return case.get("src"), case.get("case") or {}


class _Count(int):
    """value count of a delta page, with the page's block size"""
    def __new__(cls, n, block):
        o = int.__new__(cls, n)
        o.block = block
        return o

    @property
    def one_left_after_full_blocks(self):
        return int(self) % self.block == 1


def _c12_delta_pages(inner):
    """[(non-null values in page)] for DELTA_BINARY_PACKED pages of a C03 plan."""
    out = []
    for rg in inner.get("plan", {}).get("row_groups", []):
        for name, cp in rg.get("chunks", {}).items():
            rows = rg["data"].get(name, [])
            pos = 0
            pages = cp.get("pages", [])
            for i, p in enumerate(pages):
                cnt = (len(rows) - pos) if (p.get("n") is None or i == len(pages) - 1) else min(p["n"], len(rows) - pos)
                if p.get("encoding") == "DELTA_BINARY_PACKED":
                    nn = sum(1 for v in rows[pos:pos + cnt] if v is not None)
                    out.append(_Count(nn, (p.get("delta") or {}).get("block_size", 128)))
                pos += cnt
    return out


@predicate
def c12_to_bytes_overflow(case, out):
    src, inner = _c12_inner(case)
    sig = out["sig"]
    return src == "C10" and bool(inner.get("allow_big")) and _beyond_pinned_buffer(inner) and any(f in sig for f in ("write_thrift", "write_list", "to_bytes", "crash"))


@predicate
def c12_delta_width(case, out):
    src, inner = _c12_inner(case)
    sig = out["sig"]
    if not any(f in sig for f in ("delta_read_bitpacked", "delta_binary_unpack", "NumpyIO_write_int", "NumpyIO_write_long", "NumpyIO_read_byte", "crash")):
        return False
    if src == "C11":
        return inner.get("f") == "delta" and inner.get("width", 0) >= 29
    if src == "C03":
        from vf.finding_predicates import _c03_features
        return max(_c03_features(inner).get("delta_widths") or [0]) >= 29
    return False


@predicate
def c12_bitpacked_width(case, out):
    src, inner = _c12_inner(case)
    sig = out["sig"]
    if not any(f in sig for f in ("read_bitpacked", "_mask_for_bits", "encode_bitpacked")):
        return False
    if src == "C11":
        return inner.get("f") in ("read_bitpacked", "encode") and inner.get("width", 0) >= 25
    if src == "C03":
        from vf.finding_predicates import _c03_features
        return (_c03_features(inner).get("max_dict_bit_width") or 0) >= 25
    return False


@predicate
def c12_delta_single_value(case, out):
    """delta_binary_unpack reads a block header (min delta, bit widths) whenever a value is still to come - also for the
    last value of a page that ends exactly after full blocks (1, block+1, 2*block+1 ... values), where no block follows:
    it reads one to a few bytes past the page buffer."""
    src, inner = _c12_inner(case)
    sig = out["sig"]
    if "READ" not in sig or not any(f in sig for f in ("read_unsigned_var_int", "delta_binary_unpack", "NumpyIO_read")):
        return False
    if src == "C03":
        return any(n.one_left_after_full_blocks for n in _c12_delta_pages(inner))
    if src == "C11":
        return inner.get("f") == "delta" and bool(inner.get("single"))
    return False


@predicate
def c12_bitpacked_truncated_group(case, out):
    """read_bitpacked fetches whole groups: a final bit-packed group cut at the page end (Impala) is read 1 byte past the buffer."""
    src, inner = _c12_inner(case)
    if src != "C03" or "read_bitpacked" not in out["sig"] or "READ" not in out["sig"]:
        return False
    return any(p.get("truncate_last_group") for rg in inner.get("plan", {}).get("row_groups", [])
               for cp in rg.get("chunks", {}).values() for p in cp.get("pages", []))


@predicate
def c14_categorical_dictionaries(case, out):
    """Same root cause as C07-categorical-dictionaries: one dictionary per row group / file, labels resolved through the last one."""
    sig = out["sig"]
    if not (sig.startswith(("value|category", "celltype|category")) or ("open_or_read_raised" in sig and ("IndexError" in sig or "RuntimeError" in sig))):
        return False
    from vf.finding_predicates import _cat_lists_differ
    return _cat_lists_differ(case["files"])
