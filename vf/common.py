"""Shared paths, seeds, scratch directories, and the bootstrap that makes
`import fastparquet` resolve to the tree under test ($VERIF_REPO, default /repo)
with extension modules that correspond to the *current* generated C sources."""
import hashlib
import json
import os
import shutil
import sys
import tempfile

VERIF = os.path.dirname(os.path.dirname(os.path.abspath(__file__)))
REPO = os.environ.get("VERIF_REPO", "/repo")
BUILD = os.path.join(VERIF, ".build")
EVIDENCE = os.environ.get("VF_EVIDENCE_DIR") or os.path.join(VERIF, "evidence")   # (redirected when a scratch tree is evaluated)
REPLAYS = os.path.join(VERIF, "replays")

# sha256 of the generated C sources of the pinned tree, for which the .so files
# shipped in the working tree are known to be the corresponding build.
PINNED_C = {
    "cencoding": "7127c183789c8c3cef204380404b648984cab2ffec05f013fede175b758821d9",
    "speedups": "3dc1610bbf3f0392c0fe061bd0ae05421e7a3cb6ddb088102c0726b4fa1f06f9",
}


def verif_seed():
    try:
        return int(os.environ.get("VERIF_SEED", "1"))
    except ValueError:
        return 1


def derive_seed(*parts):
    h = hashlib.sha256(repr(parts).encode()).digest()
    return int.from_bytes(h[:8], "big") >> 1


def canon(case):
    return json.dumps(case, sort_keys=True, separators=(",", ":"), default=str)


def case_hash(case):
    return hashlib.sha256(canon(case).encode()).hexdigest()[:16]


def sha256_file(path):
    h = hashlib.sha256()
    with open(path, "rb") as f:
        for blk in iter(lambda: f.read(1 << 20), b""):
            h.update(blk)
    return h.hexdigest()


_SCRATCH_ROOT = None


def scratch_root():
    """Per-process scratch root, on tmpfs when available; removed at exit."""
    global _SCRATCH_ROOT
    if _SCRATCH_ROOT is None or not os.path.isdir(_SCRATCH_ROOT):
        base = "/dev/shm" if os.path.isdir("/dev/shm") and os.access("/dev/shm", os.W_OK) else None
        _SCRATCH_ROOT = tempfile.mkdtemp(prefix="vf-%d-" % os.getpid(), dir=base)
        import atexit
        atexit.register(shutil.rmtree, _SCRATCH_ROOT, True)
    return _SCRATCH_ROOT


class Scratch:
    """Context manager: fresh empty directory for one case."""

    def __enter__(self):
        self.path = tempfile.mkdtemp(dir=scratch_root())
        return self.path

    def __exit__(self, *a):
        shutil.rmtree(self.path, ignore_errors=True)
        return False


def tree_fingerprint():
    """Identify the tested tree: HEAD + dirty tracked files + C source hashes."""
    import subprocess
    out = {}
    try:
        out["head"] = subprocess.run(["git", "-C", REPO, "rev-parse", "HEAD"], capture_output=True,
                                     text=True, timeout=20).stdout.strip()
        diff = subprocess.run(["git", "-C", REPO, "diff", "HEAD", "--", "fastparquet"], capture_output=True,
                              timeout=20).stdout
        out["dirty_sha"] = hashlib.sha256(diff).hexdigest()[:16] if diff else None
    except Exception as e:  # pragma: no cover
        out["head"] = "unknown: %s" % e
    for m in ("cencoding", "speedups"):
        p = os.path.join(REPO, "fastparquet", m + ".c")
        out[m + ".c"] = sha256_file(p)[:16] if os.path.exists(p) else None
    return out


def bootstrap():
    """Make `fastparquet` importable from REPO with up-to-date extension modules.
    Must run before the first `import fastparquet`."""
    if "fastparquet" in sys.modules:
        return
    from vf import extsync
    extsync.install(os.environ.get("VF_EXT_VARIANT", "plain"))
    if REPO not in sys.path:
        sys.path.insert(0, REPO)
    import warnings
    warnings.filterwarnings("ignore")
