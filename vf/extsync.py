"""Keep the compiled extension modules in step with the generated C sources.

No Cython exists in this sandbox, so `.pyx` edits can never take effect; what can
change native behaviour is an edit of `fastparquet/cencoding.c` / `speedups.c`.
If the current `.c` differs from the pinned one (for which the shipped `.so` is
the matching build) it is compiled here into /verif/.build/ext-<sha>/ and shadowed
in front of the stale `.so` through a meta-path finder.  The sanitised build used
by C12 goes through the same cache (`variant="asan"`).
"""
import fcntl
import glob
import importlib.abc
import importlib.machinery
import importlib.util
import os
import subprocess
import sys
import sysconfig

from vf import common

MODS = ("cencoding", "speedups")

ASAN_FLAGS = [
    "-O1", "-g", "-fno-omit-frame-pointer", "-fno-strict-overflow", "-DNDEBUG",
    "-fsanitize=address",
    "-fsanitize=shift-exponent,bounds,integer-divide-by-zero,null,unreachable,vla-bound",
    "-fsanitize-recover=address,shift-exponent,bounds,integer-divide-by-zero,null,vla-bound",
]


def _includes():
    import numpy
    return ["-I" + sysconfig.get_paths()["include"], "-I" + numpy.get_include()]


def build(mod, variant="plain"):
    """Return path of an extension module built from the current C source of
    `mod`, building it if it is not cached.  Returns None if there is no C source."""
    src = os.path.join(common.REPO, "fastparquet", mod + ".c")
    if not os.path.exists(src):
        return None
    sha = common.sha256_file(src)
    d = os.path.join(common.BUILD, "%s-%s" % ("ext" if variant == "plain" else variant, sha[:20]))
    out = os.path.join(d, mod + sysconfig.get_config_var("EXT_SUFFIX"))
    if os.path.exists(out):
        return out
    os.makedirs(d, exist_ok=True)
    lock = open(os.path.join(d, ".lock"), "w")
    fcntl.flock(lock, fcntl.LOCK_EX)
    try:
        if os.path.exists(out):
            return out
        if variant == "plain":
            cc = (sysconfig.get_config_var("CC") or "gcc").split()
            flags = (sysconfig.get_config_var("CFLAGS") or "-O3").split()
        else:
            cc = ["clang"]
            flags = list(ASAN_FLAGS)
        cmd = cc + flags + ["-shared", "-fPIC", "-w"] + _includes() + [src, "-o", out + ".tmp"]
        r = subprocess.run(cmd, capture_output=True, text=True)
        if r.returncode != 0:
            raise RuntimeError("building %s (%s) failed:\n%s" % (mod, variant, r.stderr[-4000:]))
        os.replace(out + ".tmp", out)
        return out
    finally:
        fcntl.flock(lock, fcntl.LOCK_UN)
        lock.close()


def resolve(variant="plain"):
    """Map module name -> .so path to shadow in (only where shadowing is needed)."""
    shadow = {}
    for mod in MODS:
        src = os.path.join(common.REPO, "fastparquet", mod + ".c")
        have_so = glob.glob(os.path.join(common.REPO, "fastparquet", mod + ".*.so"))
        if variant != "plain":
            p = build(mod, variant)
            if p is None:
                raise RuntimeError("no C source for %s: cannot make the sanitised build" % mod)
            shadow[mod] = p
            continue
        if os.path.exists(src) and common.sha256_file(src) != common.PINNED_C[mod]:
            shadow[mod] = build(mod)
        elif not have_so:
            # scratch copy without build output: borrow the pinned build
            cand = glob.glob(os.path.join("/repo", "fastparquet", mod + ".*.so"))
            if cand:
                shadow[mod] = cand[0]
    return shadow


class _Finder(importlib.abc.MetaPathFinder):
    def __init__(self, shadow):
        self.shadow = shadow

    def find_spec(self, fullname, path=None, target=None):
        if fullname.startswith("fastparquet."):
            mod = fullname.split(".", 1)[1]
            if mod in self.shadow:
                loader = importlib.machinery.ExtensionFileLoader(fullname, self.shadow[mod])
                return importlib.util.spec_from_file_location(fullname, self.shadow[mod], loader=loader)
        return None


_installed = None


def install(variant="plain"):
    global _installed
    if _installed is not None:
        return _installed
    shadow = resolve(variant)
    if shadow:
        sys.meta_path.insert(0, _Finder(shadow))
    _installed = shadow
    return shadow


def asan_env():
    """Environment for a subprocess that loads the sanitised modules."""
    rt = subprocess.run(["clang", "-print-file-name=libclang_rt.asan-x86_64.so"],
                        capture_output=True, text=True).stdout.strip()
    env = dict(os.environ)
    env["LD_PRELOAD"] = rt
    env["ASAN_OPTIONS"] = "detect_leaks=0:halt_on_error=0:allocator_may_return_null=1:symbolize=1"
    env["UBSAN_OPTIONS"] = "print_stacktrace=1:halt_on_error=0"
    env["ASAN_SYMBOLIZER_PATH"] = _which("llvm-symbolizer-14") or _which("llvm-symbolizer") or ""
    env["VF_EXT_VARIANT"] = "asan"
    env["PYTHONHASHSEED"] = "0"
    return env


def _which(x):
    import shutil
    return shutil.which(x)
