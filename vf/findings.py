"""Known findings: genuine defects of the tested tree that are recorded rather than
repaired.  `known_findings.json` (committed, never written at run time) lists
them; each open entry names a predicate below that recognises *that* defect from
the failing case and the violation signature, so that a different violation of
the same property still surfaces.  `fixed` entries suppress nothing."""
import json
import os
import re

from vf import common

PREDICATES = {}


def predicate(fn):
    PREDICATES[fn.__name__] = fn
    return fn


def load():
    p = os.path.join(common.VERIF, "known_findings.json")
    if not os.path.exists(p):
        return []
    with open(p) as f:
        data = json.load(f)
    return data.get("findings", [])


def match(prop_id, case, out, findings=None):
    """Return the open finding that explains this violation, or None."""
    findings = load() if findings is None else findings
    for f in findings:
        if f.get("status") != "open" or f.get("property") != prop_id:
            continue
        pred = PREDICATES.get(f.get("predicate"))
        if pred is None:
            continue
        try:
            if pred(case, out):
                return f
        except Exception:
            continue
    return None


def is_open(fid, findings=None):
    findings = load() if findings is None else findings
    return any(f["id"] == fid and f.get("status") == "open" for f in findings)


# Predicates are registered by the property modules' companion file so that each
# one sits next to the oracle it refers to.
def _load_predicates():
    from vf import finding_predicates  # noqa: F401


try:
    _load_predicates()
except ImportError:
    pass
