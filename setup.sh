#!/bin/bash
# MANIFEST.setup_cmd: offline; makes sure dependencies import, extension modules match
# the current C sources, the sanitised build exists, and the reference implementation
# validates against its third-party fixtures.
cd "$(dirname "$0")"
export PYTHONHASHSEED=0 PYTHONDONTWRITEBYTECODE=1 PIP_NO_INDEX=1
/venv/bin/python -c "import hypothesis" 2>/dev/null || \
  /venv/bin/pip install --no-index --find-links /opt/veriftools/wheels hypothesis >/dev/null 2>&1
/venv/bin/python -c "import hypothesis, pandas, numpy, cramjam; print('deps ok: hypothesis', hypothesis.__version__)" || exit 1
mkdir -p .build evidence
/venv/bin/python - <<'PY' || exit 1
import sys
sys.path.insert(0, ".")
from vf import common, extsync
print("ext sync:", extsync.resolve("plain") or "pinned build in use")
try:
    print("asan build:", sorted(extsync.resolve("asan").values()))
except Exception as e:
    print("asan build failed (C12 will report a harness error):", e)
PY
if [ -f vf/refpq/selftest.py ]; then
  /venv/bin/python -m vf.refpq.selftest >/dev/null 2>&1 && echo "refpq selftest ok" || { echo "refpq selftest FAILED"; exit 1; }
fi
echo "setup done"
