#!/venv/bin/python
"""Run the repository's own suite and confirm that every test of BASELINE.json's
stable_pass set still passes (used after each fix:/hook commit)."""
import json, subprocess, sys, tempfile, os, xml.etree.ElementTree as ET
repo = sys.argv[1] if len(sys.argv) > 1 else "/repo"
base = json.load(open("/root/.vp/BASELINE.json"))
want = set(base["stable_pass"])
with tempfile.TemporaryDirectory() as d:
    x = os.path.join(d, "j.xml")
    env = dict(os.environ); env.pop("FASTPARQUET_VERIF", None)
    subprocess.run(["/venv/bin/python", "-m", "pytest", "-q", "-p", "no:cacheprovider", "-n", "16", "--timeout=900",
                    "--continue-on-collection-errors", "--junitxml=" + x], cwd=repo, env=env,
                   stdout=subprocess.DEVNULL, stderr=subprocess.DEVNULL)
    passed = set()
    for tc in ET.parse(x).getroot().iter("testcase"):
        if not any(ch.tag in ("failure", "error", "skipped") for ch in tc):
            passed.add("%s::%s" % (tc.get("classname"), tc.get("name")))
missing = sorted(want - passed)
print("baseline: %d/%d stable tests pass; %d other tests pass" % (len(want & passed), len(want), len(passed - want)))
for m in missing[:40]:
    print("  NOT PASSING:", m)
sys.exit(1 if missing else 0)
