#!/bin/bash
# validate MANIFEST.json and every evidence file against the schemas (tooling venv has jsonschema)
cd "$(dirname "$0")/.."
python3-vt - <<'PY'
import json, glob, jsonschema, sys
ok = True
try:
    jsonschema.validate(json.load(open("MANIFEST.json")), json.load(open("/root/.vp/MANIFEST.schema.json")))
    print("MANIFEST.json valid")
except Exception as e:
    ok = False; print("MANIFEST.json INVALID:", str(e)[:300])
s = json.load(open("/root/.vp/EVIDENCE.schema.json"))
for f in sorted(glob.glob("evidence/*.json")):
    try:
        jsonschema.validate(json.load(open(f)), s)
    except Exception as e:
        ok = False; print(f, "INVALID:", str(e)[:300])
print("evidence files checked:", len(glob.glob("evidence/*.json")))
sys.exit(0 if ok else 1)
PY
