#!/bin/bash
# tools/regen_evidence.sh [seed]  - quick tier of every registered check on /repo's working tree; rewrites evidence/<ID>.json,
# then validates manifest + evidence.  Prints one line per check; exit 1 if any check did not exit 0.
cd "$(dirname "$0")/.."
seed=${1:-1}; bad=0
for id in C01 C02 C03 C04 C05 C06 C07 C08 C09 C10 C11 C12 C13 C14 C15 C16 C17 C18 C19 C20; do
  t0=$(date +%s)
  out=$(VERIF_SEED=$seed ./check $id --tier quick 2>&1); rc=$?
  echo "$id exit=$rc $(( $(date +%s) - t0 ))s :: $(echo "$out" | tail -1 | cut -c1-170)"
  [ $rc -ne 0 ] && bad=1 && echo "$out" | grep -E "^---|VIOLATION|HARNESS" -A3 | head -20
done
tools/gen_manifest.py >/dev/null && tools/validate.sh || bad=1
exit $bad
