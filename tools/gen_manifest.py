#!/venv/bin/python
"""Regenerate MANIFEST.json from the property modules that exist (vf/props/cNN.py with a
MANIFEST dict) so that the manifest is valid at all times."""
import importlib
import json
import os
import sys

sys.path.insert(0, os.path.dirname(os.path.dirname(os.path.abspath(__file__))))
os.chdir(os.path.dirname(os.path.dirname(os.path.abspath(__file__))))

PROPS = [json.loads(l) for l in open("properties.jsonl")]
BASE = json.load(open("/root/.vp/BASELINE.json"))

checks = []
na = []
for p in PROPS:
    pid = p["id"]
    path = "vf/props/%s.py" % pid.lower()
    info = None
    if os.path.exists(path):
        src = open(path).read()
        ns = {}
        # the MANIFEST dict literal is kept free of imports so it can be read without importing fastparquet
        start = src.find("MANIFEST = {")
        if start >= 0:
            depth = 0
            for i in range(start + len("MANIFEST = "), len(src)):
                if src[i] == "{":
                    depth += 1
                elif src[i] == "}":
                    depth -= 1
                    if depth == 0:
                        info = eval(src[start + len("MANIFEST = "): i + 1], {})
                        break
    if info is None:
        na.append({"property_id": pid, "reason": "check not built yet (see DESIGN.md section 4 for the planned design)"})
        continue
    if info.get("not_applicable"):
        na.append({"property_id": pid, "reason": info["not_applicable"]})
        continue
    checks.append({
        "property_id": pid,
        "quick_cmd": "./check %s --tier quick" % pid,
        "thorough_cmd": "./check %s --tier thorough" % pid,
        "evidence_file": "/verif/evidence/%s.json" % pid,
        "replay_cmd_template": "./check %s --replay {path}" % pid,
        "engine": info.get("engine", "vf-runner"),
        "level_claimed": {"category": info["category"], "text": info["text"], "design_ref": info.get("design_ref", "DESIGN.md section 4, " + pid)},
        "level_note": info["note"],
        "technique": info["technique"],
    })

manifest = {
    "version": 1,
    "setup_cmd": "./setup.sh",
    "hooks": {
        "guard": "FASTPARQUET_VERIF",
        "enable": "no source hooks are needed: checks observe public API, module globals (writer.MAX_PAGE_SIZE, "
                  "writer.DATAPAGE_VERSION), open_with/mkdirs callables, sys.settrace and an external sanitised "
                  "build of the generated C sources",
        "baseline_off_cmd": BASE["cmd"].replace("--junitxml=<file>", "--junitxml=/tmp/baseline.junit.xml"),
        "source_commits": [],
        "add_only": True,
    },
    "engines": [
        {"name": "vf-runner", "path": "vf/runner.py", "serves_properties": [c["property_id"] for c in checks],
         "kind_free_text": "Hypothesis-driven sharded case collector + enumerators, violation bucketing, "
                           "known-finding predicates, structural shrinking to replay files"},
        {"name": "refpq", "path": "vf/refpq", "serves_properties": ["C02", "C03", "C04", "C10", "C11", "C12", "C15", "C16", "C17"],
         "kind_free_text": "independent Parquet reader/writer written from the format specification (oracle)"},
    ],
    "checks": checks,
    "not_applicable": na,
    "notes": "All checks: property-based testing / fuzzing family (Hypothesis 6.168 as generator, exhaustive "
             "enumeration for finite lattices). Replays of fixed defects live in replays/<ID>/ and run first in every check. "
             "known_findings.json lists recorded (open) and repaired (fixed) genuine defects.",
}
with open("MANIFEST.json", "w") as f:
    json.dump(manifest, f, indent=1)
print("MANIFEST.json: %d checks, %d not_applicable" % (len(checks), len(na)))
print("validate with tools/validate.sh")
