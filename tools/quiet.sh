#!/bin/bash
# tools/quiet.sh [tier] seed...   - run every registered check at the given seeds; print exit codes (all must be 0 on the unchanged tree)
cd "$(dirname "$0")/.."
tier=${1:-quick}; shift
export VF_EVIDENCE_DIR=$(mktemp -d)
for seed in "$@"; do
  for id in C01 C02 C03 C04 C05 C06 C07 C08 C09 C10 C11 C12 C13 C14 C15 C16 C17 C18 C19 C20; do
    t0=$(date +%s)
    out=$(VERIF_SEED=$seed ./check $id --tier $tier 2>&1); rc=$?
    echo "seed=$seed $id exit=$rc $(( $(date +%s) - t0 ))s :: $(echo "$out" | tail -1 | cut -c1-160)"
    if [ $rc -ne 0 ]; then echo "$out" | grep -E "^---|VIOLATION|HARNESS" -A3 | head -30; fi
    rm -f replays/$id/found-*.json
  done
done
rm -rf "$VF_EVIDENCE_DIR"
