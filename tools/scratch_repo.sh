#!/bin/bash
# tools/scratch_repo.sh <dir> [commit]  - scratch worktree of /repo incl. the untracked build output
set -e
d=$1; c=${2:-HEAD}
git -C /repo worktree add --detach -f "$d" "$c" >/dev/null 2>&1
cp /repo/fastparquet/*.so /repo/fastparquet/*.c "$d/fastparquet/"
echo "$d"
