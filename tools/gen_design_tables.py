#!/venv/bin/python
"""Regenerate the tables at the end of DESIGN.md: repairs, open known findings, seeded changes."""
import glob, json, os
os.chdir(os.path.dirname(os.path.dirname(os.path.abspath(__file__))))
MARK = "<!-- GENERATED TABLES BELOW (tools/gen_design_tables.py) -->"
s = open("DESIGN.md").read()
s = s[: s.index(MARK) + len(MARK)]
kf = json.load(open("known_findings.json"))["findings"]
out = ["", "", "### Repairs (`fix:` commits in /repo, one per defect)", "", "| property | finding | commit | what failed |", "|---|---|---|---|"]
for f in kf:
    if f["status"] == "fixed":
        out.append("| %s | %s | `%s` | %s |" % (f["property"], f["id"], f.get("commit", ""), f["what"].replace("|", "\\|")))
out += ["", "### Open known findings (recorded, not repaired)", "", "| property | finding | what fails |", "|---|---|---|"]
for f in kf:
    if f["status"] == "open":
        out.append("| %s | %s | %s |" % (f["property"], f["id"], f["what"].replace("|", "\\|")))
out += ["", "### Seeded changes (written by sub-agents from the property text alone)", "",
        "| id | property | what it needs to manifest | caught by (quick tier, seed 1) | what had to be strengthened first |", "|---|---|---|---|---|"]
for m in sorted(glob.glob("seeded/*/meta.json")):
    d = json.load(open(m))
    caught = ", ".join(d.get("caught_by", [])) or "**missed**"
    if d.get("obsolete"):
        caught += " when written; no longer a violation: " + d["obsolete"]
    if d.get("missed_reason"):
        caught += " (not by %s: %s)" % (d["property"], d["missed_reason"])
    out.append("| %s | %s | %s | %s | %s |" % (os.path.basename(os.path.dirname(m)), d["property"], d["needs"].replace("|", "\\|"), caught.replace("|", "\\|"),
                                           (d.get("history") or "").replace("|", "\\|")))
open("DESIGN.md", "w").write(s + "\n".join(out) + "\n")
print("tables: %d repairs, %d open, %d seeded" % (sum(f["status"] == "fixed" for f in kf), sum(f["status"] == "open" for f in kf), len(glob.glob("seeded/*/meta.json"))))
