#!/venv/bin/python
"""Evaluate one seeded change (a patch a sub-agent produced knowing only the property text):

  tools/eval_seeded.py <PROP> <change.diff> <demo.py> [--checks C01,C02] [--keep]

1. scratch worktree of /repo HEAD (outside /repo and /verif), demo on the clean tree must PASS (exit 0)
2. apply the patch (git apply, falling back to patch -p1/-p0 for the untracked generated .c files)
3. the repository's baseline (339 tests) must still pass
4. the demo must FAIL (exit 1)
5. the registered quick check(s) run with VERIF_REPO=<worktree>: VIOLATION expected
Prints a JSON summary; found-*.json replay files written by the checks are removed again."""
import argparse
import glob
import json
import os
import shutil
import subprocess
import sys
import tempfile
import time

VERIF = os.path.dirname(os.path.dirname(os.path.abspath(__file__)))


def sh(cmd, **kw):
    return subprocess.run(cmd, capture_output=True, text=True, **kw)


def main():
    ap = argparse.ArgumentParser()
    ap.add_argument("prop")
    ap.add_argument("diff")
    ap.add_argument("demo")
    ap.add_argument("--checks")
    ap.add_argument("--tier", default="quick")
    ap.add_argument("--seed", default="1")
    ap.add_argument("--skip-baseline", action="store_true")
    args = ap.parse_args()
    wt = tempfile.mkdtemp(prefix="seedeval-", dir="/tmp")
    os.rmdir(wt)
    out = {"property": args.prop, "diff": args.diff}
    try:
        r = sh([os.path.join(VERIF, "tools", "scratch_repo.sh"), wt])
        if r.returncode != 0:
            out["error"] = "worktree: " + r.stderr
            return out
        env = dict(os.environ, PYTHONPATH=wt, PYTHONHASHSEED="0")
        r = sh(["/venv/bin/python", args.demo], cwd=wt, env=env, timeout=600)
        out["demo_clean_exit"] = r.returncode
        r = sh(["git", "-C", wt, "apply", "--whitespace=nowarn", os.path.abspath(args.diff)])
        if r.returncode != 0:
            ok = False
            for p in ("-p1", "-p0"):
                r2 = sh(["patch", p, "--forward", "-i", os.path.abspath(args.diff)], cwd=wt)
                if r2.returncode == 0:
                    ok = True
                    break
            if not ok:
                # diffs of the .c files made with absolute paths
                r2 = sh(["patch", "--forward", os.path.join(wt, "fastparquet", "cencoding.c"), "-i", os.path.abspath(args.diff)])
                ok = r2.returncode == 0
            if not ok:
                out["error"] = "patch does not apply: " + r.stderr[-300:]
                return out
        out["applied"] = True
        csrc = [f for f in ("cencoding", "speedups") if sh(["cmp", "-s", os.path.join(wt, "fastparquet", f + ".c"), "/repo/fastparquet/%s.c" % f]).returncode != 0]
        out["native_changed"] = csrc
        if csrc:
            inc = sh(["/venv/bin/python", "-c", "import sysconfig, numpy; print('-I'+sysconfig.get_paths()['include']); print('-I'+numpy.get_include())"]).stdout.split()
            for m in csrc:
                r = sh(["gcc", "-shared", "-fPIC", "-fno-strict-overflow", "-DNDEBUG", "-g", "-O3", "-w"] + inc +
                       [os.path.join(wt, "fastparquet", m + ".c"), "-o", os.path.join(wt, "fastparquet", m + ".cpython-312-x86_64-linux-gnu.so")])
                if r.returncode != 0:
                    out["error"] = "native rebuild failed: " + r.stderr[-300:]
                    return out
        if not args.skip_baseline:
            r = sh([os.path.join(VERIF, "tools", "baseline_check.py"), wt], timeout=1800)
            out["baseline_ok"] = r.returncode == 0
            out["baseline"] = r.stdout.strip().splitlines()[:4]
        r = sh(["/venv/bin/python", args.demo], cwd=wt, env=env, timeout=600)
        out["demo_mutant_exit"] = r.returncode
        out["demo_mutant_tail"] = (r.stdout + r.stderr)[-300:]
        checks = (args.checks.split(",") if args.checks else [args.prop])
        out["checks"] = {}
        for cid in checks:
            t0 = time.time()
            r = sh([os.path.join(VERIF, "check"), cid, "--tier", args.tier], cwd=VERIF,
                   env=dict(os.environ, VERIF_REPO=wt, VERIF_SEED=args.seed, VF_EVIDENCE_DIR=os.path.join(wt, ".evidence")), timeout=3600)
            viol = [l for l in r.stdout.splitlines() if l.startswith("VIOLATION")]
            sigs = [l[4:].strip() for l in r.stdout.splitlines() if l.startswith("--- ")]
            out["checks"][cid] = {"exit": r.returncode, "violations": len(viol), "signatures": sigs[:6], "wall_s": round(time.time() - t0),
                                  "summary": r.stdout.strip().splitlines()[-1][:200] if r.stdout.strip() else r.stderr[-200:]}
            for f in glob.glob(os.path.join(VERIF, "replays", cid, "found-*.json")):
                os.unlink(f)
        return out
    finally:
        sh(["git", "-C", "/repo", "worktree", "remove", "--force", wt])
        shutil.rmtree(wt, ignore_errors=True)
        sh(["git", "-C", "/repo", "worktree", "prune"])


if __name__ == "__main__":
    res = main()
    print(json.dumps(res, indent=1))
