#!/bin/bash
# tools/thorough_all.sh ID...  - thorough tier of the given checks, one after the other (for background exploration)
cd "$(dirname "$0")/.."
export VF_EVIDENCE_DIR=$(mktemp -d)
for id in "$@"; do
  out=$(./check $id --tier thorough 2>&1); rc=$?
  echo "$id exit=$rc :: $(echo "$out" | tail -1 | cut -c1-200)"
  if [ $rc -ne 0 ]; then echo "$out" | grep -E "^---|VIOLATION|HARNESS" -A4 | head -60; mkdir -p thorough_found; cp replays/$id/found-*.json thorough_found/ 2>/dev/null; fi
done
