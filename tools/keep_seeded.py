#!/venv/bin/python
"""tools/keep_seeded.py <PROP> <i> "<what it needs to manifest>" [--caught C05,C13] [--missed "reason"]
Copies a verified seeded change from /tmp/mutout/<PROP>/ into /verif/seeded/<PROP>-<i>/ with meta.json."""
import argparse, json, os, shutil, sys
ap = argparse.ArgumentParser()
ap.add_argument("prop"); ap.add_argument("i"); ap.add_argument("needs")
ap.add_argument("--caught", default=""); ap.add_argument("--missed", default=""); ap.add_argument("--evals", default=""); ap.add_argument("--history", default=""); ap.add_argument("--src", default="/tmp/mutout"); ap.add_argument("--round", default="")
a = ap.parse_args()
src = "%s/%s" % (a.src, a.prop)
dst = os.path.join(os.path.dirname(os.path.dirname(os.path.abspath(__file__))), "seeded", "%s-%s%s" % (a.prop, ("r%s-" % a.round) if a.round else "", a.i))
os.makedirs(dst, exist_ok=True)
pre = "extra_" if not os.path.exists("%s/change%s.diff" % (src, a.i)) else ""
shutil.copy("%s/%schange%s.diff" % (src, pre, a.i), dst + "/patch.diff")
shutil.copy("%s/%sdemo%s.py" % (src, pre, a.i), dst + "/demo.py")
if os.path.exists("%s/%snotes%s.md" % (src, pre, a.i)):
    shutil.copy("%s/%snotes%s.md" % (src, pre, a.i), dst + "/notes.md")
ran = {}
for f in ["%s/eval%s.json" % (src, a.i), "%s/eval%sb.json" % (src, a.i)] + [x for x in a.evals.split(",") if x]:
    if os.path.exists(f):
        d = json.load(open(f))
        for k, v in (("demo_on_clean_tree_exit", d.get("demo_clean_exit")), ("baseline_339_pass_with_change", d.get("baseline_ok")),
                     ("demo_with_change_exit", d.get("demo_mutant_exit"))):
            if v is not None:
                ran[k] = v
        for k, v in d.get("checks", {}).items():
            ran.setdefault("checks", {})[k] = {"exit": v["exit"], "signatures": v["signatures"][:3], "wall_s": v["wall_s"]}
meta = {"property": a.prop, "needs": a.needs, "origin": "sub-agent given only the property text and a scratch worktree (task: %s/%s/task.md)" % (a.src, a.prop),
        "what_i_ran": {"tool": "tools/eval_seeded.py (scratch worktree outside /repo and /verif; demo on clean tree; git apply / patch; baseline; demo; quick check with VERIF_REPO)",
                       "results": ran},
        "caught_by": [c for c in a.caught.split(",") if c], "missed_reason": a.missed, "history": a.history}
json.dump(meta, open(dst + "/meta.json", "w"), indent=1)
print(dst)
